// C30: concurrent skiplist inserts are lossless and ordered.
//
// White-box runtime monitor (package arenaskl). Two parts:
//
//   - "main" (TestVerifC30): a controlled scheduler over the verifhook yield
//     sites of addInternal. Every actor (inserter or reader) parks at each site
//     and a chooser releases exactly one actor at a time, so an execution is a
//     pure function of the choice sequence (and of the random tower heights,
//     which are observed through the arena allocation size and, for the
//     exhaustive configurations, filtered to a target height vector by
//     rejection: off-target executions are still checked by the oracle but do
//     not advance the enumeration). Small configurations are enumerated
//     completely (depth-first over the choice tree by re-execution); larger,
//     seeded-random configurations get seeded random walks.
//
//   - "stress" (TestVerifC30Stress): 8-32 free-running inserters, 10^4-10^5
//     keys with 5% duplicates, an arena that fills up near the end in half of
//     the runs, concurrent free-running readers, seeded random yields.
//
// Oracle (both parts): every Add of a fresh key returns nil exactly once over
// all inserters and every other Add of that key returns ErrRecordExists; after
// quiescence the forward scan, the reversed backward scan and the sorted set
// of successful adds (plus pre-existing keys) are equal, on every level of the
// towers (white box) and through the Iterator API (First/Next, Last/Prev,
// SeekGE, SeekLT); a concurrent reader only ever sees strictly ordered keys
// that were added (or are being added), a forward scan contains every key
// whose Add returned before the scan began and every key the reader saw
// before; a backward scan contains every pre-existing key and every key an
// earlier backward scan of the same reader saw.
package arenaskl

import (
	"bytes"
	"fmt"
	"math/rand/v2"
	"runtime"
	"runtime/debug"
	"sort"
	"strings"
	"sync"
	"sync/atomic"
	"testing"
	"time"
	"unsafe"

	"github.com/cockroachdb/pebble/internal/base"
	"github.com/cockroachdb/pebble/internal/verif/vcommon"
	"github.com/cockroachdb/pebble/internal/verifhook"
)

// ---------------------------------------------------------------------------
// keys

type verifC30Key struct {
	U string `json:"u"`
	S uint64 `json:"s"`
}

func (k verifC30Key) String() string { return fmt.Sprintf("%s#%d", k.U, k.S) }

func (k verifC30Key) ikey() base.InternalKey {
	return base.MakeInternalKey([]byte(k.U), base.SeqNum(k.S), base.InternalKeyKindSet)
}

// verifC30Less is the internal key order: user key ascending, then sequence
// number descending (all keys use the same kind).
func verifC30Less(a, b verifC30Key) bool {
	if a.U != b.U {
		return a.U < b.U
	}
	return a.S > b.S
}

func verifC30SortKeys(ks []verifC30Key) {
	sort.Slice(ks, func(i, j int) bool { return verifC30Less(ks[i], ks[j]) })
}

func verifC30KeyOf(kv *base.InternalKV) verifC30Key {
	return verifC30Key{U: string(kv.K.UserKey), S: uint64(kv.K.SeqNum())}
}

func verifC30ValueOf(kv *base.InternalKV) string {
	v, _, err := kv.V.Value(nil)
	if err != nil {
		return "<error " + err.Error() + ">"
	}
	return string(v)
}

func verifC30KeysString(ks []verifC30Key) string {
	var sb strings.Builder
	for i, k := range ks {
		if i > 0 {
			sb.WriteByte(' ')
		}
		sb.WriteString(k.String())
	}
	return sb.String()
}

func verifC30KeysEqual(a, b []verifC30Key) bool {
	if len(a) != len(b) {
		return false
	}
	for i := range a {
		if a[i] != b[i] {
			return false
		}
	}
	return true
}

// verifC30HeightFromDelta recovers the tower height of a node from the number
// of bytes its allocation consumed in the arena (see newRawNode/Arena.alloc).
func verifC30HeightFromDelta(delta uint64, klen, vlen int) uint32 {
	full := uint64(maxNodeSize + klen + vlen + nodeAlignment - 1)
	if delta > full || (full-delta)%uint64(linksSize) != 0 {
		return 0
	}
	miss := (full - delta) / uint64(linksSize)
	if miss >= maxHeight {
		return 0
	}
	return uint32(maxHeight - miss)
}

// ---------------------------------------------------------------------------
// the process-global hook

type verifC30Ev struct {
	id   int
	site string
	done bool
}

type verifC30Actor struct {
	id     int
	resume chan struct{}
	atSite string
	steps  int
}

type verifC30Sched struct {
	cur atomic.Pointer[verifC30Actor]
	ev  chan verifC30Ev
}

func (s *verifC30Sched) park(a *verifC30Actor, site string) {
	s.ev <- verifC30Ev{id: a.id, site: site}
	<-a.resume
}

var (
	verifC30Active atomic.Pointer[verifC30Sched]
	verifC30Yield  atomic.Pointer[func(string)]
	verifC30Once   sync.Once
)

func verifC30InstallHook() {
	verifC30Once.Do(func() {
		verifhook.Set(func(site string) {
			if s := verifC30Active.Load(); s != nil {
				// Controlled mode: exactly one actor runs at any time and the
				// chooser published which one before releasing it.
				if a := s.cur.Load(); a != nil {
					s.park(a, site)
				}
				return
			}
			if y := verifC30Yield.Load(); y != nil {
				(*y)(site)
			}
		})
	})
}

// verifC30Worker is a reusable goroutine: creating goroutines is expensive
// under the race detector, and an execution needs 2-4 of them.
type verifC30Worker struct {
	jobs  chan func()
	actor *verifC30Actor
}

// used by the chooser goroutine only
var (
	verifC30Pool     []*verifC30Worker
	verifC30TheSched *verifC30Sched
)

func verifC30GetSched() *verifC30Sched {
	if verifC30TheSched == nil {
		verifC30TheSched = &verifC30Sched{ev: make(chan verifC30Ev)}
	}
	return verifC30TheSched
}

func verifC30GetWorker(i int) *verifC30Worker {
	for len(verifC30Pool) <= i {
		w := &verifC30Worker{jobs: make(chan func()), actor: &verifC30Actor{id: len(verifC30Pool), resume: make(chan struct{})}}
		go func() {
			for j := range w.jobs {
				j()
			}
		}()
		verifC30Pool = append(verifC30Pool, w)
	}
	return verifC30Pool[i]
}

// ---------------------------------------------------------------------------
// configurations

type verifC30Op struct {
	K verifC30Key `json:"k"`
	H uint32      `json:"h"` // wanted tower height, 0 = any
}

type verifC30Config struct {
	Name     string         `json:"name"`
	Family   string         `json:"family"`
	Pre      []verifC30Key  `json:"pre"`
	PreH     []uint32       `json:"pre_heights"`
	Actors   [][]verifC30Op `json:"actors"`
	Inserter bool           `json:"inserter"`
	// Reader: "" none, otherwise a string of 'f' (forward scan) and 'b'
	// (backward scan), executed in order by one scheduled reader actor.
	Reader string `json:"reader"`
	DFS    bool   `json:"dfs"`
	Walks  int    `json:"walks"`
	// Split > 0: the enumeration of this configuration is divided into one
	// work item per choice prefix of that length (so that shards share it).
	Split int `json:"split,omitempty"`
	vals  [][]string
}

func (c *verifC30Config) nActors() int {
	n := len(c.Actors)
	if c.Reader != "" {
		n++
	}
	return n
}

// values returns the value written by each op (unique per actor and op).
func (c *verifC30Config) values() [][]string {
	if c.vals == nil {
		for ai, ops := range c.Actors {
			var v []string
			for oi, op := range ops {
				v = append(v, verifC30OpValue(ai, oi, op.K))
			}
			c.vals = append(c.vals, v)
		}
	}
	return c.vals
}

func (c *verifC30Config) targeted() bool {
	for _, a := range c.Actors {
		for _, op := range a {
			if op.H != 0 {
				return true
			}
		}
	}
	return false
}

type verifC30Base struct {
	list *Skiplist
	vals map[verifC30Key]string
}

func verifC30PreValue(k verifC30Key) string { return "pre:" + k.String() }

// verifC30BuildBase builds the pre-existing list through the real Add,
// re-building until the random tower heights equal the wanted ones.
func verifC30BuildBase(cfg *verifC30Config) (*verifC30Base, int) {
	for try := 1; try <= 2000000; try++ {
		arena := NewArena(make([]byte, verifC30ArenaSize))
		l := NewSkiplist(arena, bytes.Compare)
		ok := true
		for i, k := range cfg.Pre {
			before := arena.n.Load()
			v := verifC30PreValue(k)
			if err := l.Add(k.ikey(), []byte(v)); err != nil {
				panic(fmt.Sprintf("verifC30: building pre-existing list: %v", err))
			}
			h := verifC30HeightFromDelta(arena.n.Load()-before, len(k.U), len(v))
			if i < len(cfg.PreH) && cfg.PreH[i] != 0 && h != cfg.PreH[i] {
				ok = false
				break
			}
		}
		if ok {
			b := &verifC30Base{list: l, vals: map[verifC30Key]string{}}
			for _, k := range cfg.Pre {
				b.vals[k] = verifC30PreValue(k)
			}
			return b, try
		}
	}
	return nil, 0
}

// verifC30Clone copies a quiescent skiplist (its whole state lives in the
// arena buffer, the arena size and the height) into buf, which is reused
// between executions because allocating is expensive under the race detector.
// used is the number of bytes of buf the previous execution may have touched.
func verifC30Clone(src *Skiplist, buf []byte, used uint64) *Skiplist {
	n := src.arena.n.Load()
	if len(buf) != len(src.arena.buf) {
		panic("verifC30: buffer size mismatch")
	}
	copy(buf, src.arena.buf[:n])
	if used > uint64(len(buf)) {
		used = uint64(len(buf))
	}
	if used > n {
		clear(buf[n:used])
	}
	a := &Arena{buf: buf}
	a.n.Store(n)
	ho := src.arena.getPointerOffset(unsafe.Pointer(src.head))
	to := src.arena.getPointerOffset(unsafe.Pointer(src.tail))
	s := &Skiplist{arena: a, cmp: src.cmp, head: (*node)(a.getPointer(ho)), tail: (*node)(a.getPointer(to))}
	s.height.Store(src.height.Load())
	return s
}

var (
	verifC30Buf     = make([]byte, verifC30ArenaSize)
	verifC30BufUsed uint64
)

const verifC30ArenaSize = 4096

// ---------------------------------------------------------------------------
// one controlled execution

type verifC30OpResult struct {
	Started bool   `json:"started"`
	Done    bool   `json:"done"`
	Err     string `json:"err"` // "", "exists", "full", other
	H       uint32 `json:"h"`   // observed tower height, 0 = no node allocated
	PastFS  bool   `json:"past_find_splice"`
	// HiddenDup: at the start of this Add the Inserter's cached level-0 splice
	// was still valid, bracketed the key, and its next node held exactly this
	// key (see verifC30CachedSpliceHidesKey).
	HiddenDup bool `json:"cached_splice_next_equals_key,omitempty"`
}

// verifC30CachedSpliceHidesKey reports whether findSplice, called now with
// this Inserter, would reuse the cached level-0 splice although the splice's
// next node holds exactly key. (White-box diagnosis only: it classifies a
// violation, it never decides one.)
func verifC30CachedSpliceHidesKey(l *Skiplist, ins *Inserter, k base.InternalKey) bool {
	if ins.height == 0 || ins.height < l.Height() {
		return false
	}
	spl := &ins.spl[0]
	if spl.prev == nil || spl.next == nil || spl.next == l.tail {
		return false
	}
	if l.getNext(spl.prev, 0) != spl.next {
		return false
	}
	if l.cmp(spl.next.getKeyBytes(l.arena), k.UserKey) != 0 || spl.next.keyTrailer != k.Trailer {
		return false
	}
	return spl.prev == l.head || l.keyIsAfterNode(spl.prev, k)
}

type verifC30Scan struct {
	Dir  byte          `json:"dir"`
	Keys []verifC30Key `json:"keys"`
	Vals []string      `json:"-"`
	// snapshot at scan start
	mustSee []verifC30Key
	started map[verifC30Key]bool
	// completed adds at scan start that a backward scan is not promised to see
	completedAtStart []verifC30Key
}

type verifC30Run struct {
	cfg       *verifC30Config
	list      *Skiplist
	Choices   []int                `json:"choices"`
	Enabled   []int                `json:"-"`
	Trace     []string             `json:"trace"` // filled by finalize()
	trIDs     []int
	trSites   []string
	Results   [][]verifC30OpResult `json:"results"`
	Scans     []*verifC30Scan      `json:"scans"`
	OffTarget bool                 `json:"off_target"`
	Switches  int                  `json:"switches"`
	Panic     string               `json:"panic,omitempty"`
	Livelock  bool                 `json:"livelock,omitempty"`
	added     map[verifC30Key]string
	started   map[verifC30Key]bool
	retries   int
}

const verifC30MaxSteps = 400

// finalize renders the trace for replay files and samples.
func (run *verifC30Run) finalize() *verifC30Run {
	if len(run.Trace) == 0 {
		for i, id := range run.trIDs {
			run.Trace = append(run.Trace, fmt.Sprintf("%d:%s", id, strings.TrimPrefix(run.trSites[i], "arenaskl.add.")))
		}
	}
	return run
}

func verifC30ErrName(err error) string {
	switch err {
	case nil:
		return ""
	case ErrRecordExists:
		return "exists"
	case ErrArenaFull:
		return "full"
	}
	return "other:" + err.Error()
}

func verifC30OpValue(ai, oi int, k verifC30Key) string {
	return fmt.Sprintf("a%d.%d:%s", ai, oi, k)
}

// verifC30Execute runs cfg once on a clone of base under the controlled
// scheduler. choose(step, n) returns the index (into the id-ordered list of
// parked actors) of the actor to release.
func verifC30Execute(cfg *verifC30Config, bs *verifC30Base, choose func(step, n int) int) *verifC30Run {
	l := verifC30Clone(bs.list, verifC30Buf, verifC30BufUsed)
	defer func() { verifC30BufUsed = l.arena.n.Load() }()
	run := &verifC30Run{cfg: cfg, list: l, added: map[verifC30Key]string{}, started: map[verifC30Key]bool{}}
	sched := verifC30GetSched()
	nIns := len(cfg.Actors)
	var actors []*verifC30Actor
	run.Results = make([][]verifC30OpResult, nIns)
	curOp := make([]int, nIns)
	vals := cfg.values()
	for ai := range cfg.Actors {
		run.Results[ai] = make([]verifC30OpResult, len(cfg.Actors[ai]))
		a := verifC30GetWorker(ai).actor
		a.atSite = "harness.start"
		actors = append(actors, a)
		ai := ai
		verifC30GetWorker(ai).jobs <- func() {
			<-a.resume
			defer func() {
				if p := recover(); p != nil {
					run.Panic = fmt.Sprintf("actor %d: %v\n%s", ai, p, debug.Stack())
				}
				sched.ev <- verifC30Ev{id: a.id, done: true}
			}()
			var ins Inserter
			for oi, op := range cfg.Actors[ai] {
				if oi > 0 {
					sched.park(a, "harness.nextOp")
				}
				curOp[ai] = oi
				res := &run.Results[ai][oi]
				res.Started = true
				run.started[op.K] = true
				val := vals[ai][oi]
				var err error
				if cfg.Inserter {
					res.HiddenDup = verifC30CachedSpliceHidesKey(l, &ins, op.K.ikey())
					err = ins.Add(l, op.K.ikey(), []byte(val))
				} else {
					err = l.Add(op.K.ikey(), []byte(val))
				}
				res.Err = verifC30ErrName(err)
				res.Done = true
				if err == nil {
					if _, dup := run.added[op.K]; !dup {
						run.added[op.K] = val
					}
				}
			}
		}
	}
	if cfg.Reader != "" {
		a := verifC30GetWorker(nIns).actor
		a.atSite = "harness.start"
		actors = append(actors, a)
		verifC30GetWorker(nIns).jobs <- func() {
			<-a.resume
			defer func() {
				if p := recover(); p != nil {
					run.Panic = fmt.Sprintf("reader: %v\n%s", p, debug.Stack())
				}
				sched.ev <- verifC30Ev{id: a.id, done: true}
			}()
			for si := 0; si < len(cfg.Reader); si++ {
				if si > 0 {
					sched.park(a, "reader.nextScan")
				}
				sc := &verifC30Scan{Dir: cfg.Reader[si], started: map[verifC30Key]bool{}}
				// Snapshot of what this scan is promised to contain.
				must := map[verifC30Key]bool{}
				for _, k := range cfg.Pre {
					must[k] = true
				}
				if sc.Dir == 'f' {
					for k := range run.added {
						must[k] = true
					}
					for _, prev := range run.Scans {
						for _, k := range prev.Keys {
							must[k] = true
						}
					}
				} else {
					for k := range run.added {
						sc.completedAtStart = append(sc.completedAtStart, k)
					}
					for _, prev := range run.Scans {
						if prev.Dir == 'b' {
							for _, k := range prev.Keys {
								must[k] = true
							}
						}
					}
				}
				for k := range must {
					sc.mustSee = append(sc.mustSee, k)
				}
				run.Scans = append(run.Scans, sc)
				it := l.NewIter(base.DefaultSplit, nil, nil)
				var kv *base.InternalKV
				if sc.Dir == 'f' {
					kv = it.First()
				} else {
					kv = it.Last()
				}
				for kv != nil {
					sc.Keys = append(sc.Keys, verifC30KeyOf(kv))
					sc.Vals = append(sc.Vals, verifC30ValueOf(kv))
					if len(sc.Keys) > 64 {
						break // cyclic links; reported by the order check
					}
					sched.park(a, "reader.step")
					if sc.Dir == 'f' {
						kv = it.Next()
					} else {
						kv = it.Prev()
					}
				}
				for k := range run.started {
					sc.started[k] = true
				}
				_ = it.Close()
			}
		}
	}

	verifC30Active.Store(sched)
	defer verifC30Active.Store(nil)
	enabled := append([]*verifC30Actor(nil), actors...)
	last := -1
	for step := 0; len(enabled) > 0; step++ {
		if step >= verifC30MaxSteps {
			run.Livelock = true
			verifC30Pool, verifC30TheSched = nil, nil // the remaining actors stay parked forever (leaked on purpose)
			break
		}
		idx := choose(step, len(enabled))
		if idx < 0 || idx >= len(enabled) {
			idx = 0
		}
		a := enabled[idx]
		if last != -1 && last != a.id {
			run.Switches++
		}
		last = a.id
		before := l.arena.n.Load()
		prevSite := a.atSite
		sched.cur.Store(a)
		a.resume <- struct{}{}
		ev := <-sched.ev
		sched.cur.Store(nil)
		after := l.arena.n.Load()
		run.Choices = append(run.Choices, idx)
		run.Enabled = append(run.Enabled, len(enabled))
		if a.id < nIns && prevSite == "arenaskl.add.afterFindSplice" {
			oi := curOp[a.id]
			op := cfg.Actors[a.id][oi]
			run.Results[a.id][oi].PastFS = true
			if after != before {
				h := verifC30HeightFromDelta(after-before, len(op.K.U), len(vals[a.id][oi]))
				run.Results[a.id][oi].H = h
				if op.H != 0 && h != op.H {
					run.OffTarget = true
				}
			}
		}
		run.trIDs = append(run.trIDs, a.id)
		if ev.done {
			run.trSites = append(run.trSites, "done")
			enabled = append(enabled[:idx], enabled[idx+1:]...)
		} else {
			a.atSite = ev.site
			run.trSites = append(run.trSites, ev.site)
			if ev.site == "arenaskl.add.casFailedRetry" {
				run.retries++
			}
		}
	}
	return run
}

// ---------------------------------------------------------------------------
// oracle

type verifC30Viol struct {
	class  string
	detail string
}

// verifC30ScanAll returns the quiescent forward and backward scans through the
// Iterator API.
func verifC30ScanAll(l *Skiplist, limit int) (fwd, bwd []verifC30Key, fvals []string) {
	it := l.NewIter(base.DefaultSplit, nil, nil)
	defer it.Close()
	for kv := it.First(); kv != nil && len(fwd) <= limit; kv = it.Next() {
		fwd = append(fwd, verifC30KeyOf(kv))
		fvals = append(fvals, verifC30ValueOf(kv))
	}
	for kv := it.Last(); kv != nil && len(bwd) <= limit; kv = it.Prev() {
		bwd = append(bwd, verifC30KeyOf(kv))
	}
	return
}

func verifC30Reverse(ks []verifC30Key) []verifC30Key {
	out := make([]verifC30Key, len(ks))
	for i, k := range ks {
		out[len(ks)-1-i] = k
	}
	return out
}

func verifC30NodeKey(l *Skiplist, nd *node) verifC30Key {
	return verifC30Key{U: string(nd.getKeyBytes(l.arena)), S: uint64(nd.keyTrailer.SeqNum())}
}

// verifC30CheckLevels walks every level of the towers in both directions.
func verifC30CheckLevels(l *Skiplist, expect []verifC30Key) *verifC30Viol {
	limit := len(expect) + 4
	var below map[verifC30Key]bool
	for lvl := 0; lvl < int(l.Height()); lvl++ {
		var f, b []verifC30Key
		for nd := l.getNext(l.head, lvl); nd != l.tail && nd != nil && len(f) <= limit; nd = l.getNext(nd, lvl) {
			f = append(f, verifC30NodeKey(l, nd))
		}
		for nd := l.getPrev(l.tail, lvl); nd != l.head && nd != nil && len(b) <= limit; nd = l.getPrev(nd, lvl) {
			b = append(b, verifC30NodeKey(l, nd))
		}
		if !verifC30KeysEqual(f, verifC30Reverse(b)) {
			return &verifC30Viol{"level-links-asymmetric", fmt.Sprintf("level %d: forward links give [%s], backward links give (reversed) [%s]",
				lvl, verifC30KeysString(f), verifC30KeysString(verifC30Reverse(b)))}
		}
		for i := 1; i < len(f); i++ {
			if !verifC30Less(f[i-1], f[i]) {
				return &verifC30Viol{"level-out-of-order", fmt.Sprintf("level %d: [%s] is not strictly ordered", lvl, verifC30KeysString(f))}
			}
		}
		cur := map[verifC30Key]bool{}
		for _, k := range f {
			cur[k] = true
			if below != nil && !below[k] {
				return &verifC30Viol{"tower-gap", fmt.Sprintf("key %s is linked at level %d but not at level %d", k, lvl, lvl-1)}
			}
		}
		if lvl == 0 && !verifC30KeysEqual(f, expect) {
			return &verifC30Viol{"final-scan-mismatch", fmt.Sprintf("level 0 links give [%s], expected [%s]", verifC30KeysString(f), verifC30KeysString(expect))}
		}
		below = cur
	}
	return nil
}

// verifC30CheckSeeks checks SeekGE / SeekLT (which descend the towers) for
// every expected key against the expected sorted list.
func verifC30CheckSeeks(l *Skiplist, expect []verifC30Key) *verifC30Viol {
	it := l.NewIter(base.DefaultSplit, nil, nil)
	defer it.Close()
	for _, k := range expect {
		// first expected key with user key >= k.U / last with user key < k.U
		var ge, lt *verifC30Key
		for i := range expect {
			if expect[i].U >= k.U && ge == nil {
				ge = &expect[i]
			}
			if expect[i].U < k.U {
				lt = &expect[i]
			}
		}
		kv := it.SeekGE([]byte(k.U), base.SeekGEFlagsNone)
		if (kv == nil) != (ge == nil) || (kv != nil && verifC30KeyOf(kv) != *ge) {
			got := "nil"
			if kv != nil {
				got = verifC30KeyOf(kv).String()
			}
			return &verifC30Viol{"seek-mismatch", fmt.Sprintf("SeekGE(%s) = %s, expected %v in [%s]", k.U, got, ge, verifC30KeysString(expect))}
		}
		kv = it.SeekLT([]byte(k.U), base.SeekLTFlagsNone)
		if (kv == nil) != (lt == nil) || (kv != nil && verifC30KeyOf(kv) != *lt) {
			got := "nil"
			if kv != nil {
				got = verifC30KeyOf(kv).String()
			}
			return &verifC30Viol{"seek-mismatch", fmt.Sprintf("SeekLT(%s) = %s, expected %v in [%s]", k.U, got, lt, verifC30KeysString(expect))}
		}
	}
	return nil
}

type verifC30RunFacts struct {
	backwardMissedCompleted int
	backwardMissedExample   string
}

// verifC30Check is the oracle for one controlled execution.
func verifC30Check(run *verifC30Run, bs *verifC30Base) ([]verifC30Viol, verifC30RunFacts) {
	var out []verifC30Viol
	var facts verifC30RunFacts
	cfg := run.cfg
	if run.Panic != "" {
		out = append(out, verifC30Viol{"panic", run.Panic})
		return out, facts
	}
	if run.Livelock {
		out = append(out, verifC30Viol{"insert-never-terminates", fmt.Sprintf("%d scheduling steps without all Adds returning (lock-free insertion must finish in a bounded number of steps here)", verifC30MaxSteps)})
		return out, facts
	}
	// exactly-once
	type tally struct{ nils, exists, other, total int }
	per := map[verifC30Key]*tally{}
	winners := map[verifC30Key]string{}
	for ai, ops := range cfg.Actors {
		for oi, op := range ops {
			res := run.Results[ai][oi]
			t := per[op.K]
			if t == nil {
				t = &tally{}
				per[op.K] = t
			}
			t.total++
			switch res.Err {
			case "":
				t.nils++
				winners[op.K] = cfg.values()[ai][oi]
			case "exists":
				t.exists++
			default:
				t.other++
				out = append(out, verifC30Viol{"unexpected-error", fmt.Sprintf("Add(%s) by actor %d returned %q (the arena is large enough)", op.K, ai, res.Err)})
			}
		}
	}
	expectVals := map[verifC30Key]string{}
	for k, v := range bs.vals {
		expectVals[k] = v
	}
	for k, t := range per {
		_, pre := bs.vals[k]
		switch {
		case pre && t.nils > 0:
			out = append(out, verifC30Viol{"duplicate-accepted", fmt.Sprintf("Add(%s) returned nil %d time(s) although the key pre-existed", k, t.nils)})
		case !pre && t.nils == 0 && t.other == 0:
			out = append(out, verifC30Viol{"fresh-key-rejected", fmt.Sprintf("all %d Add(%s) returned ErrRecordExists; nobody inserted it", t.total, k)})
		case !pre && t.nils > 1:
			out = append(out, verifC30Viol{"double-insert", fmt.Sprintf("Add(%s) returned nil %d times", k, t.nils)})
		}
		if !pre && t.nils >= 1 {
			expectVals[k] = winners[k]
		}
	}
	var expect []verifC30Key
	for k := range expectVals {
		expect = append(expect, k)
	}
	verifC30SortKeys(expect)

	// quiescent scans
	fwd, bwd, fvals := verifC30ScanAll(run.list, len(expect)+4)
	if !verifC30KeysEqual(fwd, expect) {
		out = append(out, verifC30Viol{"final-scan-mismatch", fmt.Sprintf("forward scan [%s], expected sorted successful adds [%s]", verifC30KeysString(fwd), verifC30KeysString(expect))})
	} else {
		for i, k := range fwd {
			if fvals[i] != expectVals[k] {
				// with a double insert the winner is ambiguous; reported above
				if t := per[k]; t == nil || t.nils <= 1 {
					out = append(out, verifC30Viol{"value-mismatch", fmt.Sprintf("key %s holds value %q, expected %q", k, fvals[i], expectVals[k])})
				}
			}
		}
	}
	if !verifC30KeysEqual(verifC30Reverse(bwd), expect) {
		out = append(out, verifC30Viol{"final-scan-mismatch", fmt.Sprintf("backward scan reversed [%s], expected [%s] (forward [%s])", verifC30KeysString(verifC30Reverse(bwd)), verifC30KeysString(expect), verifC30KeysString(fwd))})
	}
	if len(out) == 0 {
		if v := verifC30CheckLevels(run.list, expect); v != nil {
			out = append(out, *v)
		}
	}
	if len(out) == 0 {
		if v := verifC30CheckSeeks(run.list, expect); v != nil {
			out = append(out, *v)
		}
	}
	// heights: the number of levels a node is linked on equals its allocated height
	if len(out) == 0 {
		linked := map[verifC30Key]uint32{}
		for lvl := 0; lvl < int(run.list.Height()); lvl++ {
			for nd := run.list.getNext(run.list.head, lvl); nd != run.list.tail; nd = run.list.getNext(nd, lvl) {
				linked[verifC30NodeKey(run.list, nd)]++
			}
		}
		for ai, ops := range cfg.Actors {
			for oi, op := range ops {
				res := run.Results[ai][oi]
				if res.Err == "" && res.H != 0 && linked[op.K] != res.H {
					out = append(out, verifC30Viol{"tower-incomplete", fmt.Sprintf("key %s was allocated with height %d but is linked on %d level(s)", op.K, res.H, linked[op.K])})
				}
			}
		}
	}

	// concurrent reader
	for si, sc := range run.Scans {
		seen := map[verifC30Key]bool{}
		for i, k := range sc.Keys {
			seen[k] = true
			if i > 0 {
				ordered := verifC30Less(sc.Keys[i-1], k)
				if sc.Dir == 'b' {
					ordered = verifC30Less(k, sc.Keys[i-1])
				}
				if !ordered {
					out = append(out, verifC30Viol{"reader-out-of-order", fmt.Sprintf("scan %d (%c) saw [%s]", si, sc.Dir, verifC30KeysString(sc.Keys))})
					break
				}
			}
			_, pre := bs.vals[k]
			if !pre && !sc.started[k] {
				out = append(out, verifC30Viol{"reader-phantom-key", fmt.Sprintf("scan %d (%c) saw key %s that nobody had started to add", si, sc.Dir, k)})
			}
			if pre && sc.Vals[i] != bs.vals[k] {
				out = append(out, verifC30Viol{"reader-value-mismatch", fmt.Sprintf("scan %d saw %s=%q", si, k, sc.Vals[i])})
			}
			if !pre && !strings.HasSuffix(sc.Vals[i], ":"+k.String()) {
				out = append(out, verifC30Viol{"reader-value-mismatch", fmt.Sprintf("scan %d saw %s=%q", si, k, sc.Vals[i])})
			}
		}
		for _, k := range sc.mustSee {
			if !seen[k] {
				out = append(out, verifC30Viol{"reader-lost-key", fmt.Sprintf("scan %d (%c) saw [%s] but not %s, which pre-existed, was added before the scan began, or was seen by an earlier scan of this reader", si, sc.Dir, verifC30KeysString(sc.Keys), k)})
			}
		}
		for _, k := range sc.completedAtStart {
			if !seen[k] {
				facts.backwardMissedCompleted++
				if facts.backwardMissedExample == "" {
					facts.backwardMissedExample = fmt.Sprintf("backward scan saw [%s] but not %s whose Add had returned nil before the scan began", verifC30KeysString(sc.Keys), k)
				}
			}
		}
	}
	return out, facts
}

// ---------------------------------------------------------------------------
// configuration lists

func verifC30K(u string, s uint64) verifC30Key { return verifC30Key{U: u, S: s} }

type verifC30PreSet struct {
	name string
	keys []verifC30Key
	h    []uint32
}

func verifC30One(k verifC30Key, h uint32) []verifC30Op { return []verifC30Op{{K: k, H: h}} }

func verifC30Ops(h uint32, ks ...verifC30Key) []verifC30Op {
	var out []verifC30Op
	for _, k := range ks {
		out = append(out, verifC30Op{K: k, H: h})
	}
	return out
}

// verifC30DFSConfigs is the fixed list of small configurations that are
// enumerated completely. It does not depend on the seed.
func verifC30DFSConfigs(thorough bool) []*verifC30Config {
	var out []*verifC30Config
	add := func(c *verifC30Config) {
		c.DFS = true
		out = append(out, c)
	}
	a1, c1, d1, d2, d3, e1, z1 := verifC30K("a", 1), verifC30K("c", 1), verifC30K("d", 1), verifC30K("d", 2), verifC30K("d", 3), verifC30K("e", 1), verifC30K("z", 1)
	b1, f1, h1 := verifC30K("b", 1), verifC30K("f", 1), verifC30K("h", 1)
	pres := []verifC30PreSet{
		{"empty", nil, nil},
		{"a2.z1", []verifC30Key{a1, z1}, []uint32{2, 1}},
	}
	if thorough {
		pres = append(pres,
			verifC30PreSet{"a1", []verifC30Key{a1}, []uint32{1}},
			verifC30PreSet{"z2", []verifC30Key{z1}, []uint32{2}},
			verifC30PreSet{"a1.b3.z2", []verifC30Key{a1, b1, z1}, []uint32{1, 3, 2}},
		)
	}
	type pat struct {
		name   string
		k0, k1 verifC30Key
		extra  []verifC30Key // extra pre-existing keys
		extraH []uint32
	}
	pats := []pat{
		{"equal", d1, d1, nil, nil},
		{"adjacent", c1, e1, nil, nil},
		{"adjacent-rev", e1, c1, nil, nil},
		{"sameuser", d2, d1, nil, nil},
		{"split1", c1, e1, []verifC30Key{d1}, []uint32{1}},
		{"split2", c1, e1, []verifC30Key{d1}, []uint32{2}},
		{"dup-pre", d1, e1, []verifC30Key{d1}, []uint32{1}},
	}
	hs := [][2]uint32{{1, 1}, {1, 2}, {2, 1}, {2, 2}}
	if thorough {
		hs = append(hs, [2]uint32{1, 3}, [2]uint32{3, 1}, [2]uint32{2, 3}, [2]uint32{3, 2})
	}
	// Family A: two inserters, one key each.
	for _, p := range pats {
		for _, ps := range pres {
			for _, h := range hs {
				if !thorough && p.name == "adjacent-rev" {
					continue
				}
				if !thorough && h == [2]uint32{2, 2} && !((p.name == "equal" || p.name == "adjacent") && ps.name == "empty") {
					continue
				}
				if !thorough && h != [2]uint32{1, 1} && h != [2]uint32{2, 2} && ps.name != "empty" && p.name != "split2" {
					continue
				}
				if thorough && h == [2]uint32{2, 2} && ps.name != "empty" && ps.name != "a1.b3.z2" {
					continue // (2,2) costs ~50k executions per configuration (rejection x18)
				}
				if h[0] == 3 || h[1] == 3 {
					// height-3 towers: only the patterns where both inserters share every splice
					if p.name != "equal" && p.name != "adjacent" && p.name != "sameuser" {
						continue
					}
					if ps.name != "empty" && ps.name != "a2.z1" {
						continue
					}
					// (2,3)/(3,2): ~9k schedules x50 rejection each
					if h[0]+h[1] >= 5 && !(ps.name == "empty" && (p.name == "equal" || p.name == "adjacent")) {
						continue
					}
				}
				c := &verifC30Config{
					Name:   fmt.Sprintf("A/%s/pre=%s/h=%d.%d", p.name, ps.name, h[0], h[1]),
					Family: "A:2x1",
					Pre:    append(append([]verifC30Key(nil), ps.keys...), p.extra...),
					PreH:   append(append([]uint32(nil), ps.h...), p.extraH...),
					Actors: [][]verifC30Op{verifC30One(p.k0, h[0]), verifC30One(p.k1, h[1])},
				}
				if h[0]+h[1] >= 5 {
					c.Split = 3
				}
				add(c)
			}
		}
	}
	// Family S: scripted sequential sequences (one actor, one schedule).
	add(&verifC30Config{Name: "S/inserter/key-after-its-predecessor-dup", Family: "S:sequential", Inserter: true,
		Pre: []verifC30Key{e1}, PreH: []uint32{0},
		Actors: [][]verifC30Op{{{K: verifC30K("e", 2)}, {K: e1}}}})
	add(&verifC30Config{Name: "S/inserter/dup-of-just-added", Family: "S:sequential", Inserter: true,
		Actors: [][]verifC30Op{{{K: c1}, {K: c1}, {K: e1}, {K: d1}, {K: d1}}}})
	add(&verifC30Config{Name: "S/plain/key-after-its-predecessor-dup", Family: "S:sequential",
		Pre: []verifC30Key{e1}, PreH: []uint32{0},
		Actors: [][]verifC30Op{{{K: verifC30K("e", 2)}, {K: e1}}}})
	// Family E: inserters plus a scheduled reader.
	add(&verifC30Config{Name: "E/1ins/fwd", Family: "E:reader", Pre: []verifC30Key{a1}, PreH: []uint32{1},
		Actors: [][]verifC30Op{verifC30One(d1, 1)}, Reader: "fb"})
	add(&verifC30Config{Name: "E/1ins/bwd", Family: "E:reader", Pre: []verifC30Key{a1}, PreH: []uint32{1},
		Actors: [][]verifC30Op{verifC30One(d1, 1)}, Reader: "bf"})
	add(&verifC30Config{Name: "E/1ins2/fwd", Family: "E:reader", Pre: []verifC30Key{d1}, PreH: []uint32{1},
		Actors: [][]verifC30Op{verifC30Ops(1, e1, c1)}, Inserter: true, Reader: "fb"})
	add(&verifC30Config{Name: "E/2ins/empty/f", Family: "E:reader",
		Actors: [][]verifC30Op{verifC30One(e1, 1), verifC30One(c1, 1)}, Reader: "f"})
	add(&verifC30Config{Name: "E/2ins/empty/b", Family: "E:reader",
		Actors: [][]verifC30Op{verifC30One(e1, 1), verifC30One(c1, 1)}, Reader: "b"})
	if thorough {
		for _, rd := range []string{"f", "b"} {
			add(&verifC30Config{Name: "E/2ins/equal/" + rd, Family: "E:reader", Split: 2,
				Actors: [][]verifC30Op{verifC30One(d1, 1), verifC30One(d1, 1)}, Reader: rd})
		}
		add(&verifC30Config{Name: "E/2ins/split/b", Family: "E:reader", Split: 2, Pre: []verifC30Key{d1}, PreH: []uint32{2},
			Actors: [][]verifC30Op{verifC30One(e1, 1), verifC30One(c1, 1)}, Reader: "b"})
		add(&verifC30Config{Name: "E/2ins/empty/bb", Family: "E:reader", Split: 2,
			Actors: [][]verifC30Op{verifC30One(e1, 1), verifC30One(c1, 1)}, Reader: "bb"})
	}
	// Family C: two inserters, two keys each (cached splices with Inserter).
	type pat2 struct {
		name   string
		a0, a1 []verifC30Key
	}
	p2 := []pat2{
		{"interleaved", []verifC30Key{b1, f1}, []verifC30Key{d1, h1}},
		{"same-set", []verifC30Key{c1, e1}, []verifC30Key{c1, e1}},
		{"crossed", []verifC30Key{c1, e1}, []verifC30Key{e1, c1}},
		{"descending", []verifC30Key{f1, b1}, []verifC30Key{d2, d1}},
	}
	if thorough {
		for _, p := range p2 {
			if p.name != "interleaved" && p.name != "crossed" {
				continue
			}
			for _, ins := range []bool{false, true} {
				add(&verifC30Config{Name: fmt.Sprintf("C/%s/inserter=%v", p.name, ins), Family: "C:2x2", Inserter: ins, Split: 2,
					Actors: [][]verifC30Op{verifC30Ops(1, p.a0...), verifC30Ops(1, p.a1...)}})
			}
		}
		add(&verifC30Config{Name: "C/interleaved/pre=d2/inserter=true", Family: "C:2x2", Inserter: true, Split: 2,
			Pre: []verifC30Key{d1}, PreH: []uint32{2},
			Actors: [][]verifC30Op{verifC30Ops(1, c1, e1), verifC30Ops(1, b1, f1)}})
	} else {
		add(&verifC30Config{Name: "C/2+1/inserter=true", Family: "C:2+1", Inserter: true,
			Actors: [][]verifC30Op{verifC30Ops(1, c1, e1), verifC30Ops(1, d1)}})
		add(&verifC30Config{Name: "C/2+1/same/inserter=false", Family: "C:2+1",
			Actors: [][]verifC30Op{verifC30Ops(1, c1, e1), verifC30Ops(1, e1)}})
	}
	// Family D: a three-key inserter against a one/two-key inserter.
	if thorough {
		add(&verifC30Config{Name: "D/3+1/inserter=true", Family: "D:3+k", Inserter: true,
			Actors: [][]verifC30Op{verifC30Ops(1, b1, d1, f1), verifC30Ops(1, c1)}})
		add(&verifC30Config{Name: "D/3+1/dups/inserter=true", Family: "D:3+k", Inserter: true,
			Actors: [][]verifC30Op{verifC30Ops(1, b1, d1, b1), verifC30Ops(1, d1)}})
	}
	// Family B: three inserters, one key each.
	if thorough {
		type pat3 struct {
			name       string
			k0, k1, k2 verifC30Key
		}
		p3 := []pat3{
			{"all-equal", d1, d1, d1},
			{"all-adjacent", c1, d1, e1},
			{"sameuser", d3, d2, d1},
		}
		for _, p := range p3 {
			add(&verifC30Config{Name: "B/" + p.name + "/pre=empty/h=1.1.1", Family: "B:3x1", Split: 2,
				Actors: [][]verifC30Op{verifC30One(p.k0, 1), verifC30One(p.k1, 1), verifC30One(p.k2, 1)}})
			if p.name == "all-adjacent" {
				add(&verifC30Config{Name: "B/" + p.name + "/pre=a2/h=1.1.1", Family: "B:3x1", Split: 2, Pre: []verifC30Key{a1}, PreH: []uint32{2},
					Actors: [][]verifC30Op{verifC30One(p.k0, 1), verifC30One(p.k1, 1), verifC30One(p.k2, 1)}})
			}
		}
	}
	return out
}

// verifC30WalkConfig draws a random configuration for seeded random walks.
func verifC30WalkConfig(i int, rng *rand.Rand, walks int) *verifC30Config {
	users := []string{"b", "c", "d", "e", "f", "g"}
	pool := func() verifC30Key {
		return verifC30K(users[rng.IntN(len(users))], uint64(1+rng.IntN(2)))
	}
	c := &verifC30Config{Family: "W:random", Walks: walks, Inserter: rng.IntN(2) == 0}
	npre := rng.IntN(5)
	seen := map[verifC30Key]bool{}
	for len(c.Pre) < npre {
		k := pool()
		if rng.IntN(3) == 0 {
			k = verifC30K([]string{"a", "z"}[rng.IntN(2)], 1)
		}
		if !seen[k] {
			seen[k] = true
			c.Pre = append(c.Pre, k)
			c.PreH = append(c.PreH, 0)
		}
	}
	nact := 2 + rng.IntN(2)
	for a := 0; a < nact; a++ {
		nops := 1 + rng.IntN(3)
		var ops []verifC30Op
		for o := 0; o < nops; o++ {
			ops = append(ops, verifC30Op{K: pool()})
		}
		if rng.IntN(3) == 0 {
			// ascending run, the pattern Inserter's cached splice is made for
			sort.Slice(ops, func(x, y int) bool { return verifC30Less(ops[x].K, ops[y].K) })
		}
		c.Actors = append(c.Actors, ops)
	}
	switch rng.IntN(5) {
	case 0:
		c.Reader = "f"
	case 1:
		c.Reader = "b"
	case 2:
		c.Reader = "fbf"
	case 3:
		c.Reader = "bfb"
	}
	c.Name = fmt.Sprintf("W/%d", i)
	return c
}

// ---------------------------------------------------------------------------
// exploration drivers

type verifC30Explorer struct {
	r         *vcommon.Report
	siteHits  map[string]int64
	knownHits int
	lastCause string
}

func (x *verifC30Explorer) account(cfg *verifC30Config, run *verifC30Run) {
	r := x.r
	r.Eval(1)
	r.Count("executions", 1)
	r.Count("scheduling_steps", int64(len(run.Choices)))
	r.Max("max_steps_in_one_execution", int64(len(run.Choices)))
	r.Count("cas_failed_retries", int64(run.retries))
	for _, site := range run.trSites {
		x.siteHits[site]++
	}
	for ai := range run.Results {
		for _, res := range run.Results[ai] {
			if res.H != 0 {
				r.SetAdd("tower_heights_observed", fmt.Sprint(res.H))
			}
			if res.Err == "exists" {
				if res.PastFS {
					r.Count("exists_detected_on_retry_path", 1)
				} else {
					r.Count("exists_detected_by_findSplice", 1)
				}
			}
			if res.Err == "" {
				r.Count("adds_succeeded", 1)
			}
		}
	}
	for _, sc := range run.Scans {
		r.Count("reader_scans", 1)
		r.Count("reader_keys_seen", int64(len(sc.Keys)))
	}
	if run.Switches <= len(cfg.Actors) {
		r.Count("serial_or_near_serial_executions", 1)
	}
}

func (x *verifC30Explorer) judge(cfg *verifC30Config, bs *verifC30Base, run *verifC30Run) bool {
	viols, facts := verifC30Check(run, bs)
	if facts.backwardMissedCompleted > 0 {
		x.r.Count("info_backward_scan_missed_completed_add", int64(facts.backwardMissedCompleted))
		if x.r.NumViolations() == 0 {
			x.noteOnce("backward-missed", fmt.Sprintf("observation (not asserted, see skl.go header about the intermediate state of prev links): config %s schedule %v: %s", cfg.Name, run.finalize().Trace, facts.backwardMissedExample))
		}
	}
	if len(viols) == 0 {
		return true
	}
	// Diagnosis: did an Inserter.Add return nil although its cached splice's
	// next node already held the key?
	cause := "other"
	for ai := range run.Results {
		for _, res := range run.Results[ai] {
			if res.HiddenDup && res.Err == "" {
				cause = verifC30CauseInserterDup
			}
		}
	}
	if cause == verifC30CauseInserterDup {
		x.r.Count("executions_hitting_inserter_cached_splice_duplicate", 1)
		x.knownHits++
		if x.knownHits > 2 {
			return false // keep room under the per-process violation cap for anything else
		}
	}
	for _, v := range viols {
		x.r.Violate(v.class, fmt.Sprintf("config %s: %s", cfg.Name, v.detail),
			map[string]any{"config": cfg, "run": run.finalize(), "how": "replay: run the configuration under the controlled scheduler with these choices (index into the id-ordered list of unfinished actors at each step)"},
			map[string]any{"family": cfg.Family, "class": v.class, "cause": cause})
	}
	x.lastCause = cause
	return false
}

const verifC30CauseInserterDup = "inserter-cached-splice-next-equals-key"

var verifC30Noted sync.Map

func (x *verifC30Explorer) noteOnce(key, msg string) {
	if _, loaded := verifC30Noted.LoadOrStore(key, true); !loaded {
		x.r.Note("%s", msg)
	}
}

func verifC30HashChoices(ch []int) uint64 {
	h := uint64(1469598103934665603)
	for _, c := range ch {
		h ^= uint64(c + 1)
		h *= 1099511628211
	}
	return h
}

// dfs enumerates every schedule of cfg (for its target height vector) that
// starts with the given choice prefix, by re-execution. Returns (schedules,
// complete).
func (x *verifC30Explorer) dfs(cfg *verifC30Config, bs *verifC30Base, maxSchedules int, prefix []int) (int, bool) {
	type frame struct{ choice, n int }
	var stack []frame
	for _, p := range prefix {
		stack = append(stack, frame{p, -1})
	}
	count, consecutiveOff := 0, 0
	distinctLogged := 0
	for {
		mismatch := false
		run := verifC30Execute(cfg, bs, func(step, n int) int {
			if step < len(stack) {
				if stack[step].n != n && stack[step].n != -1 {
					mismatch = true // only meaningful for on-target executions
				}
				return stack[step].choice
			}
			return 0
		})
		x.account(cfg, run)
		x.lastCause = ""
		ok := x.judge(cfg, bs, run)
		if !ok && x.lastCause != verifC30CauseInserterDup && !(x.lastCause == "" && x.knownHits > 2) {
			x.r.Count("configs_stopped_at_first_violation", 1)
			return count, false
		}
		if run.OffTarget {
			consecutiveOff++
			x.r.Count("executions_off_target_heights", 1)
			if consecutiveOff > 200000 {
				x.r.Inconclusive("config %s: target heights not drawn in 200000 consecutive executions", cfg.Name)
				return count, false
			}
			continue
		}
		consecutiveOff = 0
		// is the pinned prefix a path of the choice tree at all?
		for s := 0; s < len(prefix); s++ {
			if s >= len(run.Enabled) || prefix[s] >= run.Enabled[s] {
				return count, true // empty subtree: that choice does not exist
			}
			if stack[s].n == -1 {
				stack[s].n = run.Enabled[s]
			}
		}
		// replay determinism of the already explored prefix
		for s := 0; s < len(stack) && s < len(run.Enabled); s++ {
			if run.Enabled[s] != stack[s].n {
				mismatch = true
			}
		}
		if mismatch || len(run.Enabled) < len(stack) {
			x.r.Inconclusive("config %s: replay of a schedule prefix was not deterministic (enumeration abandoned)", cfg.Name)
			return count, false
		}
		for s := len(stack); s < len(run.Enabled); s++ {
			stack = append(stack, frame{0, run.Enabled[s]})
		}
		count++
		x.r.Count("schedules_enumerated", 1)
		if run.Switches > len(cfg.Actors) && distinctLogged < 200 {
			distinctLogged++
			x.r.Distinct(cfg.Name, verifC30HashChoices(run.Choices))
		}
		if count == 2 && x.r.WantSample() {
			x.r.Sample(map[string]any{"config": cfg, "choices": run.Choices, "trace": run.finalize().Trace, "results": run.Results})
		}
		for len(stack) > len(prefix) && stack[len(stack)-1].choice+1 >= stack[len(stack)-1].n {
			stack = stack[:len(stack)-1]
		}
		if len(stack) <= len(prefix) {
			return count, true
		}
		stack[len(stack)-1].choice++
		if count >= maxSchedules {
			return count, false
		}
	}
}

// walks runs seeded random walks over cfg.
func (x *verifC30Explorer) walks(cfg *verifC30Config, bs *verifC30Base, rng *rand.Rand) {
	seen := map[uint64]bool{}
	for w := 0; w < cfg.Walks; w++ {
		stick := []float64{0, 0.3, 0.6, 0.85}[rng.IntN(4)]
		lastIdx := -1
		run := verifC30Execute(cfg, bs, func(step, n int) int {
			if lastIdx >= 0 && lastIdx < n && rng.Float64() < stick {
				return lastIdx
			}
			lastIdx = rng.IntN(n)
			return lastIdx
		})
		x.account(cfg, run)
		x.lastCause = ""
		if !x.judge(cfg, bs, run) && x.lastCause != verifC30CauseInserterDup && !(x.lastCause == "" && x.knownHits > 2) {
			x.r.Count("configs_stopped_at_first_violation", 1)
			return
		}
		h := verifC30HashChoices(run.Choices)
		if !seen[h] {
			seen[h] = true
			x.r.Count("walk_schedules_distinct", 1)
			if run.Switches > len(cfg.Actors) && len(seen) <= 200 {
				x.r.Distinct(cfg.Name, h)
			}
		}
		if w == 0 && x.r.WantSample() {
			x.r.Sample(map[string]any{"config": cfg, "choices": run.Choices, "trace": run.finalize().Trace, "results": run.Results})
		}
	}
}

func TestVerifC30(t *testing.T) {
	verifC30InstallHook()
	// Exactly one actor runs at any time, so one P suffices; it turns every
	// hand-over into a plain goroutine switch (no thread wake-ups). The race
	// detector works on happens-before edges and is unaffected.
	defer runtime.GOMAXPROCS(runtime.GOMAXPROCS(1))
	r := vcommon.NewReport("C30", "main")
	defer r.Finish(t)
	r.Rule("case = one configuration (pre-existing keys with tower heights, 2-3 inserters x 1-3 keys, optional scheduled reader, Inserter on/off); " +
		"the fixed small configurations are enumerated completely under the controlled scheduler (every interleaving of the yield sites for the target height vector), " +
		"seeded random configurations get seeded random walks; distinct = (configuration, choice sequence), counted for at most 200 schedules per configuration " +
		"(exact totals: counters schedules_enumerated / walk_schedules_distinct); non-trivial = more actor switches than actors (not a serial execution)")
	r.Assume("sync/atomic operations are sequentially consistent in Go; hardware reorderings beyond that are not modelled")
	r.Assume("tower heights are drawn from the unseedable global math/rand/v2 source; exhaustive enumeration is per target height vector, reached by rejection of off-target executions (which are still checked)")
	x := &verifC30Explorer{r: r, siteHits: map[string]int64{}}
	type item struct {
		cfg    *verifC30Config
		prefix []int
	}
	var items []item
	for _, c := range verifC30DFSConfigs(vcommon.Thorough()) {
		if c.Split == 0 {
			items = append(items, item{c, nil})
			continue
		}
		// all choice prefixes of length Split (choices that do not exist in the
		// tree give empty work items)
		n := c.nActors()
		total := 1
		for i := 0; i < c.Split; i++ {
			total *= n
		}
		for v := 0; v < total; v++ {
			pre := make([]int, c.Split)
			for i, w := 0, v; i < c.Split; i++ {
				pre[i] = w % n
				w /= n
			}
			items = append(items, item{c, pre})
		}
	}
	nWalkCfg := vcommon.Scale(240, 3000)
	walksPer := vcommon.Scale(150, 300)
	maxSched := vcommon.Scale(40000, 400000)
	total := len(items) + nWalkCfg
	r.Count("dfs_work_items_total", 0)
	complete, incomplete := 0, 0
	r.Cases(total, func(i int, rng *rand.Rand) {
		var cfg *verifC30Config
		var prefix []int
		if i < len(items) {
			cfg, prefix = items[i].cfg, items[i].prefix
		} else {
			cfg = verifC30WalkConfig(i-len(items), rng, walksPer)
		}
		bs, tries := verifC30BuildBase(cfg)
		if bs == nil {
			r.Inconclusive("config %s: could not build the pre-existing list with the wanted heights", cfg.Name)
			incomplete++
			return
		}
		r.Count("prelist_build_attempts", int64(tries))
		r.SetAdd("families", cfg.Family)
		if cfg.DFS {
			name := cfg.Name
			if prefix != nil {
				name = fmt.Sprintf("%s[prefix %v]", cfg.Name, prefix)
			}
			n, ok := x.dfs(cfg, bs, maxSched, prefix)
			r.Max("max_schedules_in_one_work_item", int64(n))
			r.Count("dfs_work_items_total", 1)
			if ok {
				complete++
				r.Count("dfs_work_items_enumerated_completely", 1)
				r.SetAdd("configs_exhaustive", fmt.Sprintf("%s=%d", name, n))
			} else {
				incomplete++
				r.Count("dfs_work_items_incomplete", 1)
				r.Note("config %s: enumeration stopped after %d schedules (cap %d or violation)", name, n, maxSched)
			}
		} else {
			x.walks(cfg, bs, rng)
			r.Count("configs_random_walk", 1)
		}
	})
	for s, n := range x.siteHits {
		r.Count("site_hits["+strings.TrimPrefix(s, "arenaskl.add.")+"]", n)
	}
	for _, s := range []string{"afterFindSplice", "beforeCASNext", "beforeCASPrev", "casFailedRetry"} {
		if x.siteHits["arenaskl.add."+s] == 0 && complete+incomplete > 0 {
			r.Inconclusive("yield site arenaskl.add.%s was never reached in this process", s)
		}
	}
	if complete+incomplete > 0 {
		r.Exhaustive(incomplete == 0)
	}
}

// ---------------------------------------------------------------------------
// stress

func TestVerifC30Stress(t *testing.T) {
	verifC30InstallHook()
	r := vcommon.NewReport("C30", "stress")
	defer r.Finish(t)
	r.Rule("case = one stress run: 8-32 free-running inserters over 10^4-10^5 distinct keys (quick tier: 3000-10^4) plus 5% duplicate attempts, three dealing patterns " +
		"(shuffled, sorted round-robin = neighbours inserted at the same time, per-inserter ascending runs with Inserter), arena either ample or filling up near the end, " +
		"2 free-running readers, seeded random yields at the four sites; distinct = (inserters, keys, pattern, arena mode); non-trivial = at least one CAS retry was observed")
	n := vcommon.Scale(8, 64)
	type padded struct {
		n atomic.Int64
		_ [7]uint64
	}
	var hits [4][16]padded
	hitsOf := func(si int) int64 {
		var t int64
		for j := range hits[si] {
			t += hits[si][j].n.Load()
		}
		return t
	}
	siteIdx := map[string]int{"arenaskl.add.afterFindSplice": 0, "arenaskl.add.beforeCASNext": 1, "arenaskl.add.beforeCASPrev": 2, "arenaskl.add.casFailedRetry": 3}
	r.Cases(n, func(ci int, rng *rand.Rand) {
		nIns := 8 + rng.IntN(25)
		nKeys := []int{10000, 3000, 3000, 10000}[ci%4]
		if vcommon.Thorough() {
			f := rng.Float64()
			nKeys = 10000 + int(f*f*90000) // 10^4..10^5, skewed towards the low end (cost under the race detector)
		}
		pattern := rng.IntN(3)
		arenaFull := rng.IntN(2) == 0
		useInserter := pattern == 2 || rng.IntN(2) == 0
		// distinct keys from a dense space: about 40% of the user keys carry two sequence numbers
		keys := make([]verifC30Key, 0, nKeys)
		idx := map[verifC30Key]int32{}
		for u := 0; len(keys) < nKeys; u++ {
			k := verifC30K(fmt.Sprintf("%07d", u), 1)
			idx[k] = int32(len(keys))
			keys = append(keys, k)
			if len(keys) < nKeys && rng.IntN(5) < 2 {
				k2 := verifC30K(k.U, 2)
				idx[k2] = int32(len(keys))
				keys = append(keys, k2)
			}
		}
		work := make([]int32, 0, nKeys+nKeys/20)
		for i := range keys {
			work = append(work, int32(i))
		}
		for i := 0; i < nKeys/20; i++ {
			work = append(work, int32(rng.IntN(nKeys)))
		}
		per := make([][]int32, nIns)
		switch pattern {
		case 0:
			rng.Shuffle(len(work), func(a, b int) { work[a], work[b] = work[b], work[a] })
			for i, w := range work {
				per[i%nIns] = append(per[i%nIns], w)
			}
		case 1:
			sort.Slice(work, func(a, b int) bool { return work[a] < work[b] })
			for i, w := range work {
				per[i%nIns] = append(per[i%nIns], w)
			}
		default:
			rng.Shuffle(len(work), func(a, b int) { work[a], work[b] = work[b], work[a] })
			for i, w := range work {
				per[i%nIns] = append(per[i%nIns], w)
			}
			for _, p := range per {
				// ascending runs of ~50
				for s := 0; s < len(p); s += 50 {
					e := min(s+50, len(p))
					q := p[s:e]
					sort.Slice(q, func(a, b int) bool { return q[a] < q[b] })
				}
			}
		}
		valOf := func(g int, ki int32) string { return fmt.Sprintf("g%d:%d", g, ki) }
		// expected arena consumption: E[height] = 1/(1-1/e) = 1.582 links per node
		need := 0
		for i := range keys {
			need += maxNodeSize - maxHeight*linksSize + 13 + len(keys[i].U) + len(valOf(7, int32(i))) + nodeAlignment - 1
		}
		size := 2*maxNodeSize + 64 + need
		if arenaFull {
			size = 2*maxNodeSize + 64 + int(float64(need)*(0.90+0.08*rng.Float64()))
		} else {
			size += size/6 + 8192
		}
		l := NewSkiplist(NewArena(make([]byte, size)), bytes.Compare)

		// Seeded yield profile: the per-site yield rates are a function of the
		// seed; the per-call coin uses the lock-free global source so that the
		// hook itself does not serialise the inserters.
		yseed := rng.Uint64()
		var goschedRate, sleepRate [4]uint32 // out of 1024
		for s := 0; s < 4; s++ {
			goschedRate[s] = []uint32{0, 16, 64, 200}[rng.IntN(4)]
			sleepRate[s] = []uint32{0, 2, 8, 24}[rng.IntN(4)]
		}
		yf := func(site string) {
			si := siteIdx[site]
			c := rand.Uint32()
			hits[si][c&15].n.Add(1)
			c >>= 4
			switch x := c & 1023; {
			case x < goschedRate[si]:
				runtime.Gosched()
			case x < goschedRate[si]+sleepRate[si]:
				time.Sleep(time.Duration(1+(c>>10)%40) * time.Microsecond)
			}
		}
		verifC30Yield.Store(&yf)
		defer verifC30Yield.Store(nil)
		retriesBefore := hitsOf(3)

		done := make([]atomic.Uint32, nKeys) // 1 = some Add returned nil
		results := make([][]uint8, nIns) // per attempt: 0 nil 1 exists 2 full 3 other
		var otherErr atomic.Pointer[string]
		var wg sync.WaitGroup
		var insertersDone atomic.Bool
		start := make(chan struct{})
		for g := 0; g < nIns; g++ {
			wg.Add(1)
			results[g] = make([]uint8, len(per[g]))
			go func(g int) {
				defer wg.Done()
				<-start
				var ins Inserter
				for j, ki := range per[g] {
					k := keys[ki]
					var err error
					if useInserter {
						err = ins.Add(l, k.ikey(), []byte(valOf(g, ki)))
					} else {
						err = l.Add(k.ikey(), []byte(valOf(g, ki)))
					}
					switch err {
					case nil:
						results[g][j] = 0
						done[ki].Store(1)
					case ErrRecordExists:
						results[g][j] = 1
					case ErrArenaFull:
						results[g][j] = 2
					default:
						results[g][j] = 3
						s := err.Error()
						otherErr.Store(&s)
					}
				}
			}(g)
		}
		// readers
		var rwg sync.WaitGroup
		var viol sync.Mutex
		var readerViol []verifC30Viol
		report := func(class, detail string) {
			viol.Lock()
			if len(readerViol) < 5 {
				readerViol = append(readerViol, verifC30Viol{class, detail})
			}
			viol.Unlock()
		}
		var scansDone, keysSeen, bwdMissed atomic.Int64
		for rd := 0; rd < 2; rd++ {
			rwg.Add(1)
			go func(rd int) {
				defer rwg.Done()
				<-start
				fwdEver := make([]bool, nKeys) // seen by any earlier scan (must stay in forward scans)
				bwdEver := make([]bool, nKeys) // seen by an earlier backward scan
				for scan := 0; scan < 12; scan++ {
					finishing := insertersDone.Load()
					dir := byte('f')
					if (scan+rd)%2 == 1 {
						dir = 'b'
					}
					was := make([]bool, nKeys)
					for i := range was {
						was[i] = done[i].Load() == 1
					}
					seen := make([]bool, nKeys)
					it := l.NewIter(base.DefaultSplit, nil, nil)
					var prev verifC30Key
					first := true
					cnt := 0
					var kv *base.InternalKV
					if dir == 'f' {
						kv = it.First()
					} else {
						kv = it.Last()
					}
					for kv != nil {
						k := verifC30KeyOf(kv)
						ki, ok := idx[k]
						if !ok {
							report("reader-phantom-key", fmt.Sprintf("stress reader saw key %s that is not in the workload", k))
							break
						}
						if !first {
							ordered := verifC30Less(prev, k)
							if dir == 'b' {
								ordered = verifC30Less(k, prev)
							}
							if !ordered {
								report("reader-out-of-order", fmt.Sprintf("stress reader (%c) saw %s after %s", dir, k, prev))
								break
							}
						}
						if v := verifC30ValueOf(kv); !strings.HasSuffix(v, fmt.Sprintf(":%d", ki)) {
							report("reader-value-mismatch", fmt.Sprintf("stress reader saw %s=%q", k, v))
						}
						seen[ki] = true
						prev, first = k, false
						cnt++
						if cnt > nKeys+8 {
							report("reader-out-of-order", "stress reader scan does not terminate")
							break
						}
						if dir == 'f' {
							kv = it.Next()
						} else {
							kv = it.Prev()
						}
					}
					_ = it.Close()
					for i := 0; i < nKeys; i++ {
						if dir == 'f' {
							if (was[i] || fwdEver[i]) && !seen[i] {
								report("reader-lost-key", fmt.Sprintf("stress forward scan %d missed key %s (added before the scan began: %v, seen earlier: %v)", scan, keys[i], was[i], fwdEver[i]))
								break
							}
						} else {
							if bwdEver[i] && !seen[i] {
								report("reader-lost-key", fmt.Sprintf("stress backward scan %d missed key %s seen by an earlier backward scan", scan, keys[i]))
								break
							}
							if was[i] && !seen[i] {
								bwdMissed.Add(1)
							}
						}
					}
					for i := 0; i < nKeys; i++ {
						if seen[i] {
							fwdEver[i] = true
							if dir == 'b' {
								bwdEver[i] = true
							}
						}
					}
					scansDone.Add(1)
					keysSeen.Add(int64(cnt))
					if finishing {
						break
					}
				}
			}(rd)
		}
		close(start)
		wg.Wait()
		insertersDone.Store(true)
		rwg.Wait()
		verifC30Yield.Store(nil)

		r.Eval(1)
		retries := hitsOf(3) - retriesBefore
		if retries > 0 {
			r.Distinct(nIns, nKeys, pattern, arenaFull, useInserter)
		}
		r.Count("stress_cas_failed_retries", retries)
		r.Count("stress_reader_scans", scansDone.Load())
		r.Count("stress_reader_keys_seen", keysSeen.Load())
		r.Count("info_backward_scan_missed_completed_add", bwdMissed.Load())
		r.SetAdd("stress_patterns", []string{"shuffled", "sorted-round-robin", "ascending-runs"}[pattern])

		replay := map[string]any{"case": ci, "inserters": nIns, "keys": nKeys, "pattern": pattern, "arena_full": arenaFull, "inserter": useInserter, "yield_seed": yseed, "gosched_rate_per_1024": goschedRate, "sleep_rate_per_1024": sleepRate}
		match := func(class string) map[string]any { return map[string]any{"family": "stress", "class": class} }
		for _, v := range readerViol {
			r.Violate(v.class, v.detail, replay, match(v.class))
		}
		if s := otherErr.Load(); s != nil {
			r.Violate("unexpected-error", "Add returned "+*s, replay, match("unexpected-error"))
		}
		// exactly-once
		nils := make([]int32, nKeys)
		exists := make([]int32, nKeys)
		fulls := make([]int32, nKeys)
		winner := make([]string, nKeys)
		var nFull, nDupAttempts int64
		for g := range per {
			for j, ki := range per[g] {
				switch results[g][j] {
				case 0:
					nils[ki]++
					winner[ki] = valOf(g, ki)
				case 1:
					exists[ki]++
					nDupAttempts++
				case 2:
					fulls[ki]++
					nFull++
				}
			}
		}
		r.Count("stress_adds", int64(len(work)))
		r.Count("stress_arena_full_results", nFull)
		r.Count("stress_exists_results", nDupAttempts)
		if arenaFull && nFull > 0 {
			r.Count("stress_runs_arena_filled", 1)
		}
		if !arenaFull && nFull > 0 {
			r.Violate("unexpected-error", fmt.Sprintf("%d Adds returned ErrArenaFull although the arena was sized with 16%% slack", nFull), replay, match("unexpected-error"))
		}
		var expect []verifC30Key
		bad := 0
		for i := 0; i < nKeys && bad < 5; i++ {
			switch {
			case nils[i] > 1:
				bad++
				r.Violate("double-insert", fmt.Sprintf("Add(%s) returned nil %d times", keys[i], nils[i]), replay, match("double-insert"))
			case nils[i] == 0 && exists[i] > 0:
				bad++
				r.Violate("fresh-key-rejected", fmt.Sprintf("Add(%s) returned ErrRecordExists %d time(s) but no Add of it returned nil", keys[i], exists[i]), replay, match("fresh-key-rejected"))
			case nils[i] == 0 && fulls[i] == 0:
				bad++
				r.Violate("fresh-key-rejected", fmt.Sprintf("no result recorded for %s", keys[i]), replay, match("fresh-key-rejected"))
			}
			if nils[i] >= 1 {
				expect = append(expect, keys[i])
			}
		}
		verifC30SortKeys(expect)
		fwd, bwd, fvals := verifC30ScanAll(l, len(expect)+8)
		if !verifC30KeysEqual(fwd, expect) {
			r.Violate("final-scan-mismatch", fmt.Sprintf("forward scan has %d keys, expected %d successful adds; %s", len(fwd), len(expect), verifC30FirstDiff(fwd, expect)), replay, match("final-scan-mismatch"))
		} else {
			for i, k := range fwd {
				if ki := idx[k]; nils[ki] == 1 && fvals[i] != winner[ki] {
					r.Violate("value-mismatch", fmt.Sprintf("key %s holds %q, the successful Add wrote %q", k, fvals[i], winner[ki]), replay, match("value-mismatch"))
					break
				}
			}
		}
		if !verifC30KeysEqual(verifC30Reverse(bwd), expect) {
			r.Violate("final-scan-mismatch", fmt.Sprintf("backward scan has %d keys, expected %d; %s", len(bwd), len(expect), verifC30FirstDiff(verifC30Reverse(bwd), expect)), replay, match("final-scan-mismatch"))
		}
		if v := verifC30CheckLevels(l, expect); v != nil {
			if len(v.detail) > 600 {
				v.detail = v.detail[:600] + "..."
			}
			r.Violate(v.class, v.detail, replay, match(v.class))
		}
		r.Max("max_list_height", int64(l.Height()))
		if r.WantSample() {
			r.Sample(map[string]any{"stress_run": replay, "adds": len(work), "succeeded": len(expect), "arena_full_results": nFull, "exists_results": nDupAttempts, "cas_retries": retries, "list_height": l.Height()})
		}
	})
	names := []string{"afterFindSplice", "beforeCASNext", "beforeCASPrev", "casFailedRetry"}
	anyHit := false
	for i := range hits {
		r.Count("stress_site_hits["+names[i]+"]", hitsOf(i))
		if hitsOf(i) > 0 {
			anyHit = true
		}
	}
	if anyHit {
		for i := range hits {
			if hitsOf(i) == 0 {
				r.Inconclusive("stress: yield site %s was never reached in this process", names[i])
			}
		}
	}
}

func verifC30FirstDiff(got, want []verifC30Key) string {
	for i := 0; i < len(got) || i < len(want); i++ {
		var g, w string = "<end>", "<end>"
		if i < len(got) {
			g = got[i].String()
		}
		if i < len(want) {
			w = want[i].String()
		}
		if g != w {
			return fmt.Sprintf("first difference at position %d: got %s, expected %s", i, g, w)
		}
	}
	return "no difference"
}
