package arenaskl

import (
	"fmt"
	"runtime"
	"testing"
	"time"
)

func TestVerifC30Tmp(t *testing.T) {
	verifC30InstallHook()
	defer runtime.GOMAXPROCS(runtime.GOMAXPROCS(1))
	cfg := verifC30DFSConfigs(false)[0]
	bs, _ := verifC30BuildBase(cfg)
	N := 3000
	t0 := time.Now()
	var runs []*verifC30Run
	for i := 0; i < N; i++ {
		runs = append(runs, verifC30Execute(cfg, bs, func(step, n int) int { return (i >> step) % n }))
	}
	t1 := time.Now()
	steps := 0
	for _, r := range runs {
		verifC30Check(r, bs)
		steps += len(r.Choices)
	}
	t2 := time.Now()
	for i := 0; i < N; i++ {
		verifC30Clone(bs.list)
	}
	t3 := time.Now()
	ch := make(chan int)
	done := make(chan int)
	go func() { for range ch { done <- 1 } }()
	for i := 0; i < N*10; i++ { ch <- 1; <-done }
	t4 := time.Now()
	fmt.Printf("exec %v/run (%d steps avg)  check %v/run  clone %v  pingpong %v\n", t1.Sub(t0)/time.Duration(N), steps/N, t2.Sub(t1)/time.Duration(N), t3.Sub(t2)/time.Duration(N), t4.Sub(t3)/time.Duration(N*10))
}
