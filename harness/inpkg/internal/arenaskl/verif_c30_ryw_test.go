package arenaskl

import (
	"fmt"
	"math/rand/v2"
	"runtime"
	"sync"
	"sync/atomic"
	"testing"

	"github.com/cockroachdb/pebble/internal/base"
	"github.com/cockroachdb/pebble/internal/verif/vcommon"
)

// TestVerifC30ReadYourInsert: once Add has returned, the node must be reachable
// by a concurrent reader in BOTH directions (the commit pipeline publishes a
// batch only after all its Adds returned, and iterators walk the mutable
// memtable backwards through the prev links while other batches are being
// inserted). Each inserter, right after each of its Adds, walks the whole list
// backwards (Last/Prev) and forwards (First/Next) and must meet every key whose
// Add has returned before the walk started (its own and other goroutines').
func TestVerifC30ReadYourInsert(t *testing.T) {
	R := vcommon.NewReport("C30", "ryw")
	defer R.Finish(t)
	R.Rule("W=3..8 goroutines insert interleaved versions (several sequence numbers of a few hot user keys, plus distinct keys) into one skiplist through " +
		"Skiplist.Add and per-goroutine Inserters, with seeded yields at the arenaskl hook sites (between the next-link CAS and the prev-link CAS, before " +
		"the CAS, on CAS-retry). After each Add returns, the goroutine snapshots the set of keys whose Add has returned (a monotone published counter per goroutine), " +
		"then walks the list backwards and forwards: every such key must be met in both walks, and both walks must be strictly ordered. " +
		"distinct_nontrivial = runs x walks (bucketed).")
	verifC30InstallHook()
	n := vcommon.Scale(40, 600)
	var yields atomic.Int64
	R.Cases(n, func(ci int, rng *rand.Rand) {
		seed := rng.Uint64()
		var ctr atomic.Uint64
		y := func(site string) {
			c := ctr.Add(1)
			h := (c*0x9E3779B97F4A7C15 + seed) >> 33
			switch h % 8 {
			case 0, 1:
				runtime.Gosched()
				yields.Add(1)
			case 2:
				for i := 0; i < 3; i++ {
					runtime.Gosched()
				}
				yields.Add(1)
			}
		}
		verifC30Yield.Store(&y)
		defer verifC30Yield.Store(nil)
		W := 3 + rng.IntN(6)
		per := 60 + rng.IntN(120)
		hot := 1 + rng.IntN(4)
		l := NewSkiplist(NewArena(make([]byte, 1<<20)), func(a, b []byte) int {
			return base.DefaultComparer.Compare(a, b)
		})
		// published[w] = number of keys of worker w whose Add has returned
		published := make([]atomic.Int64, W)
		keys := make([][]base.InternalKey, W)
		var seq atomic.Uint64
		seq.Store(10)
		for w := 0; w < W; w++ {
			r := rand.New(rand.NewPCG(seed, uint64(w)))
			for j := 0; j < per; j++ {
				var u string
				if r.IntN(3) != 0 {
					u = fmt.Sprintf("hot%d", r.IntN(hot))
				} else {
					u = fmt.Sprintf("k%03d", r.IntN(400))
				}
				keys[w] = append(keys[w], base.MakeInternalKey([]byte(u), base.SeqNum(seq.Add(1)), base.InternalKeyKindSet))
			}
		}
		var failed atomic.Bool
		var walks atomic.Int64
		var wg sync.WaitGroup
		for w := 0; w < W; w++ {
			wg.Add(1)
			go func(w int) {
				defer wg.Done()
				var ins Inserter
				useIns := w%2 == 0
				for j, k := range keys[w] {
					if failed.Load() {
						return
					}
					var err error
					if useIns {
						err = ins.Add(l, k, []byte("v"))
					} else {
						err = l.Add(k, []byte("v"))
					}
					if err != nil {
						failed.Store(true)
						R.Violate("add-error", fmt.Sprintf("case %d: Add(%s): %v", ci, k, err), nil, nil)
						return
					}
					published[w].Store(int64(j + 1))
					if j%3 != 0 {
						continue
					}
					// the set of keys that must be visible now
					want := map[string]bool{}
					for x := 0; x < W; x++ {
						for _, pk := range keys[x][:published[x].Load()] {
							want[pk.String()] = true
						}
					}
					for dir := 0; dir < 2; dir++ {
						it := l.NewIter(base.DefaultSplit, nil, nil)
						seen := map[string]bool{}
						var prev *base.InternalKey
						var kv *base.InternalKV
						if dir == 0 {
							kv = it.Last()
						} else {
							kv = it.First()
						}
						for kv != nil {
							seen[kv.K.String()] = true
							if prev != nil {
								c := base.InternalCompare(base.DefaultComparer.Compare, *prev, kv.K)
								if (dir == 0 && c <= 0) || (dir == 1 && c >= 0) {
									failed.Store(true)
									R.Violate("walk-out-of-order", fmt.Sprintf("case %d: walk dir=%d met %s after %s", ci, dir, kv.K, *prev), nil, nil)
								}
							}
							cp := kv.K.Clone()
							prev = &cp
							if dir == 0 {
								kv = it.Prev()
							} else {
								kv = it.Next()
							}
						}
						it.Close()
						walks.Add(1)
						for s := range want {
							if !seen[s] {
								failed.Store(true)
								R.Violate("inserted-key-not-reachable", fmt.Sprintf(
									"case %d (W=%d hot=%d): key %s, whose Add had returned before the walk started, was not met by a %s walk of the list (%d keys met, %d expected at least)",
									ci, W, hot, s, []string{"backward (Last/Prev)", "forward (First/Next)"}[dir], len(seen), len(want)),
									map[string]any{"case": ci, "seed": seed}, map[string]any{"direction": dir})
								return
							}
						}
					}
				}
			}(w)
		}
		wg.Wait()
		R.Eval(1)
		R.Count("walks", walks.Load())
		for b := int64(0); b <= walks.Load()/50; b++ {
			R.Distinct("walks", ci, b)
		}
	})
	R.Count("yields_taken", yields.Load())
}
