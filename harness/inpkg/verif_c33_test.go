// C33 (white box): a mergingIter over levels that satisfy the LSM level
// invariant (levelIters over real in-memory sstables, fake iterators and real
// memtables, each with its range tombstones) returns exactly the entries a
// filter-and-sort model computes, for generated sequences of First / Last /
// SeekGE / SeekLT / SeekPrefixGE / Next / Prev / NextPrefix / SetBounds calls
// that respect the InternalIterator calling contract.
//
// Overlaid into package pebble as /repo/verif_c33_test.go by the harness.
package pebble

import (
	"bytes"
	"context"
	"fmt"
	"math/rand/v2"
	"runtime/debug"
	"sort"
	"strings"
	"testing"

	"github.com/cockroachdb/pebble/internal/base"
	"github.com/cockroachdb/pebble/internal/invalidating"
	"github.com/cockroachdb/pebble/internal/keyspan"
	"github.com/cockroachdb/pebble/internal/manifest"
	"github.com/cockroachdb/pebble/internal/testkeys"
	"github.com/cockroachdb/pebble/internal/treesteps"
	"github.com/cockroachdb/pebble/internal/verif/vcommon"
	"github.com/cockroachdb/pebble/objstorage"
	"github.com/cockroachdb/pebble/objstorage/objstorageprovider"
	"github.com/cockroachdb/pebble/sstable"
	"github.com/cockroachdb/pebble/sstable/colblk"
	"github.com/cockroachdb/pebble/sstable/tablefilters/bloom"
	"github.com/cockroachdb/pebble/vfs"
)

// ---------------------------------------------------------------------------
// Layout description (JSON-able: it is the replay object).

type verifC33Point struct {
	K    string `json:"k"`
	Seq  uint64 `json:"seq"`
	Kind uint8  `json:"kind"`
}

type verifC33Tomb struct {
	Start string `json:"start"`
	End   string `json:"end"`
	Seq   uint64 `json:"seq"`
	Orig  int    `json:"orig"` // index of the logical DeleteRange this piece was cut from
}

type verifC33File struct {
	Points   []verifC33Point `json:"points,omitempty"`
	Tombs    []verifC33Tomb  `json:"tombs,omitempty"`
	Smallest string          `json:"smallest,omitempty"` // filled in by the build (from the sstable writer)
	Largest  string          `json:"largest,omitempty"`
}

type verifC33Level struct {
	Kind      string         `json:"kind"` // "files" (levelIter over sstables), "fake" (verifC33SliceIter or base.FakeIter), "mem" (memTable)
	Format    string         `json:"format,omitempty"`
	Bloom     bool           `json:"bloom,omitempty"`
	BlockSize int            `json:"block_size,omitempty"`
	IndexSize int            `json:"index_block_size,omitempty"`
	Files     []verifC33File `json:"files"`
	format    sstable.TableFormat
}

type verifC33Layout struct {
	Levels []verifC33Level `json:"levels"`
	MaxSeq uint64          `json:"max_seq"`
}

// Flattened model inputs.
type verifC33Ent struct {
	K    []byte
	Seq  uint64
	Kind base.InternalKeyKind
	Lvl  int
	Val  string
}

func (e *verifC33Ent) String() string {
	if e == nil {
		return "<nil>"
	}
	return fmt.Sprintf("%s#%d,%s=%q(L%d)", e.K, e.Seq, e.Kind, e.Val, e.Lvl)
}

type verifC33MTomb struct {
	Start, End []byte
	Seq        uint64
	Lvl        int
}

func verifC33Value(p verifC33Point) string {
	switch base.InternalKeyKind(p.Kind) {
	case base.InternalKeyKindDelete, base.InternalKeyKindSingleDelete:
		return ""
	}
	return fmt.Sprintf("v%d.%s", p.Seq, p.K)
}

var verifC33Cmp = testkeys.Comparer.Compare

func verifC33Prefix(k []byte) []byte { return k[:testkeys.Comparer.Split(k)] }

// ---------------------------------------------------------------------------
// Generator.

type verifC33GenStats struct {
	crossFileTombs   int // logical tombstones of one level cut into pieces living in >= 2 files
	crossRegionTombs int // logical tombstones whose pieces live in >= 2 levels
	sameSeqPairs     int
}

func verifC33SortedUnique(keys []string) []string {
	sort.Slice(keys, func(i, j int) bool { return verifC33Cmp([]byte(keys[i]), []byte(keys[j])) < 0 })
	out := keys[:0]
	for i, k := range keys {
		if i == 0 || k != keys[i-1] {
			out = append(out, k)
		}
	}
	return out
}

// verifC33GenLayout draws a layout satisfying the level invariant. A history
// of writes with increasing sequence numbers is generated; the key space is
// cut into 1-3 regions and within each region newer sequence numbers live in
// higher (earlier) levels, as if compactions had moved different key ranges
// down at different times (range tombstones are cut at region boundaries, as
// a compaction would). Within a "files" level the content is cut into 1-4
// files at random user keys, tombstones truncated to the file they land in.
func verifC33GenLayout(rng *rand.Rand) (lay verifC33Layout, pool []string, gs verifC33GenStats) {
	alpha := 2 + rng.IntN(5)
	nPrefix := 1 + rng.IntN(8)
	prefSet := map[string]bool{}
	for tries := 0; len(prefSet) < nPrefix && tries < 40; tries++ {
		b := make([]byte, 1+rng.IntN(2))
		for i := range b {
			b[i] = 'a' + byte(rng.IntN(alpha))
		}
		prefSet[string(b)] = true
	}
	maxSuffix := rng.IntN(5)
	var keys []string
	var prefixes []string
	for p := range prefSet {
		prefixes = append(prefixes, p)
	}
	sort.Strings(prefixes)
	for _, p := range prefixes {
		for s := 0; s <= maxSuffix; s++ {
			if rng.IntN(10) < 6 {
				if s == 0 {
					keys = append(keys, p)
				} else {
					keys = append(keys, fmt.Sprintf("%s@%d", p, s))
				}
			}
		}
	}
	if len(keys) == 0 {
		keys = append(keys, prefixes[0])
	}
	keys = verifC33SortedUnique(keys)
	pool = append(pool, keys...)
	pool = append(pool, prefixes...)
	for _, p := range prefixes {
		if rng.IntN(3) == 0 {
			pool = append(pool, fmt.Sprintf("%s@%d", p, maxSuffix+1+rng.IntN(3)))
		}
		if rng.IntN(4) == 0 {
			pool = append(pool, p+"\x00")
		}
	}
	pool = append(pool, "A", "zy")
	pool = verifC33SortedUnique(pool)

	pickSpan := func() (string, string) {
		switch x := rng.IntN(100); {
		case x < 8: // everything
			return pool[0], pool[len(pool)-1]
		case x < 45: // narrow: two adjacent pool keys (may cover nothing)
			i := rng.IntN(len(pool) - 1)
			return pool[i], pool[i+1]
		}
		i, j := rng.IntN(len(pool)), rng.IntN(len(pool))
		for i == j {
			j = rng.IntN(len(pool))
		}
		if i > j {
			i, j = j, i
		}
		return pool[i], pool[j]
	}

	// History of writes.
	type write struct {
		tomb       bool
		k, end     string
		seq        uint64
		orig       int
		shareSeqOK bool
	}
	nWrites := 3 + rng.IntN(60)
	if rng.IntN(4) == 0 {
		nWrites += rng.IntN(80)
	}
	tombPct := []int{0, 5, 10, 20, 40}[rng.IntN(5)]
	seq := uint64(rng.IntN(3))
	var writes []write
	for i := 0; i < nWrites; i++ {
		w := write{tomb: rng.IntN(100) < tombPct, orig: i}
		// A point and a range tombstone may share a sequence number (ingested
		// table); two points of one key may not, so never chain the sharing.
		share := i > 0 && writes[i-1].tomb != w.tomb && !writes[i-1].shareSeqOK && rng.IntN(6) == 0
		w.shareSeqOK = share
		if !share {
			if i > 0 {
				seq++
			}
			if rng.IntN(4) == 0 {
				seq += uint64(rng.IntN(5))
			}
		} else {
			gs.sameSeqPairs++
		}
		w.seq = seq
		if w.tomb {
			w.k, w.end = pickSpan()
		} else {
			w.k = keys[rng.IntN(len(keys))]
		}
		writes = append(writes, w)
	}
	lay.MaxSeq = seq

	// Regions and per-region level cuts.
	nLevels := 1 + rng.IntN(7)
	var bounds []string
	for n := rng.IntN(3); n > 0; n-- {
		bounds = append(bounds, pool[rng.IntN(len(pool))])
	}
	bounds = verifC33SortedUnique(bounds)
	region := func(k string) int {
		n := 0
		for _, b := range bounds {
			if verifC33Cmp([]byte(b), []byte(k)) <= 0 {
				n++
			}
		}
		return n
	}
	cuts := make([][]uint64, len(bounds)+1)
	for r := range cuts {
		if r > 0 && rng.IntN(10) < 3 {
			cuts[r] = cuts[r-1]
			continue
		}
		c := make([]uint64, nLevels-1)
		for i := range c {
			c[i] = uint64(rng.IntN(int(seq) + 2))
		}
		cuts[r] = c
	}
	levelOf := func(reg int, s uint64) int {
		n := 0
		for _, c := range cuts[reg] {
			if c > s {
				n++
			}
		}
		return n
	}

	// Distribute.
	type lvlContent struct {
		points []verifC33Point
		tombs  []verifC33Tomb
	}
	content := make([]lvlContent, nLevels)
	kinds := make([]string, nLevels)
	for l := range kinds {
		switch x := rng.IntN(100); {
		case x < 60:
			kinds[l] = "files"
		case x < 85:
			kinds[l] = "fake"
		default:
			kinds[l] = "mem"
		}
	}
	pointKinds := []base.InternalKeyKind{base.InternalKeyKindSet, base.InternalKeyKindSet, base.InternalKeyKindSet,
		base.InternalKeyKindDelete, base.InternalKeyKindMerge, base.InternalKeyKindSingleDelete, base.InternalKeyKindSetWithDelete}
	for _, w := range writes {
		if !w.tomb {
			l := levelOf(region(w.k), w.seq)
			kind := pointKinds[rng.IntN(len(pointKinds))]
			if kinds[l] == "mem" && kind == base.InternalKeyKindSetWithDelete {
				kind = base.InternalKeyKindSet // not expressible through the Batch API
			}
			content[l].points = append(content[l].points, verifC33Point{K: w.k, Seq: w.seq, Kind: uint8(kind)})
			continue
		}
		// Cut the tombstone at region boundaries.
		start := w.k
		lvls := map[int]bool{}
		for _, b := range append(append([]string{}, bounds...), "") {
			end := w.end
			last := b == ""
			if !last && verifC33Cmp([]byte(b), []byte(end)) < 0 {
				end = b
			}
			if verifC33Cmp([]byte(start), []byte(end)) < 0 {
				l := levelOf(region(start), w.seq)
				lvls[l] = true
				content[l].tombs = append(content[l].tombs, verifC33Tomb{Start: start, End: end, Seq: w.seq, Orig: w.orig})
				start = end
			}
			if start == w.end {
				break
			}
		}
		if len(lvls) > 1 {
			gs.crossRegionTombs++
		}
	}

	// Files.
	fmts := []sstable.TableFormat{sstable.TableFormatMinSupported, sstable.TableFormatPebblev2, sstable.TableFormatPebblev3,
		sstable.TableFormatPebblev4, sstable.TableFormatPebblev5, sstable.TableFormatPebblev6, sstable.TableFormatPebblev7, sstable.TableFormatMax, sstable.TableFormatMax}
	for l := 0; l < nLevels; l++ {
		c := content[l]
		lv := verifC33Level{Kind: kinds[l]}
		sortPoints := func(ps []verifC33Point) {
			sort.Slice(ps, func(i, j int) bool {
				if c := verifC33Cmp([]byte(ps[i].K), []byte(ps[j].K)); c != 0 {
					return c < 0
				}
				return ps[i].Seq > ps[j].Seq
			})
		}
		sortTombs := func(ts []verifC33Tomb) {
			sort.SliceStable(ts, func(i, j int) bool { return verifC33Cmp([]byte(ts[i].Start), []byte(ts[j].Start)) < 0 })
		}
		if lv.Kind != "files" {
			sortPoints(c.points)
			sortTombs(c.tombs)
			lv.Files = []verifC33File{{Points: c.points, Tombs: c.tombs}}
			lay.Levels = append(lay.Levels, lv)
			continue
		}
		if len(c.points) == 0 && len(c.tombs) == 0 {
			// An empty levelIter level does not exist in a Version; keep an
			// empty fake level sometimes so that empty children are exercised.
			if rng.IntN(3) == 0 {
				lay.Levels = append(lay.Levels, verifC33Level{Kind: "fake", Files: []verifC33File{{}}})
			}
			continue
		}
		lv.format = fmts[rng.IntN(len(fmts))]
		lv.Format = lv.format.String()
		lv.Bloom = rng.IntN(2) == 0
		lv.BlockSize = []int{1, 1, 24, 64, 4096}[rng.IntN(5)]
		lv.IndexSize = []int{1, 32, 4096}[rng.IntN(3)]
		nf := 1 + rng.IntN(4)
		var splits []string
		for i := 0; i < nf-1; i++ {
			splits = append(splits, pool[rng.IntN(len(pool))])
		}
		splits = verifC33SortedUnique(splits)
		files := make([]verifC33File, len(splits)+1)
		fileOf := func(k string) int {
			n := 0
			for _, s := range splits {
				if verifC33Cmp([]byte(s), []byte(k)) <= 0 {
					n++
				}
			}
			return n
		}
		for _, p := range c.points {
			f := fileOf(p.K)
			files[f].Points = append(files[f].Points, p)
		}
		pieces := map[int]map[int]bool{}
		for _, t := range c.tombs {
			start := t.Start
			for _, s := range append(append([]string{}, splits...), "") {
				end := t.End
				if s != "" && verifC33Cmp([]byte(s), []byte(end)) < 0 {
					end = s
				}
				if verifC33Cmp([]byte(start), []byte(end)) < 0 {
					f := fileOf(start)
					files[f].Tombs = append(files[f].Tombs, verifC33Tomb{Start: start, End: end, Seq: t.Seq, Orig: t.Orig})
					if pieces[t.Orig] == nil {
						pieces[t.Orig] = map[int]bool{}
					}
					pieces[t.Orig][f] = true
					start = end
				}
				if start == t.End {
					break
				}
			}
		}
		for _, fs := range pieces {
			if len(fs) > 1 {
				gs.crossFileTombs++
			}
		}
		for _, f := range files {
			if len(f.Points) == 0 && len(f.Tombs) == 0 {
				continue
			}
			sortPoints(f.Points)
			sortTombs(f.Tombs)
			lv.Files = append(lv.Files, f)
		}
		lay.Levels = append(lay.Levels, lv)
	}
	if len(lay.Levels) == 0 {
		lay.Levels = append(lay.Levels, verifC33Level{Kind: "fake", Files: []verifC33File{{}}})
	}
	return lay, pool, gs
}

// verifC33Flatten lists the model inputs of a layout and checks the level
// invariant the generator promises (a broken promise is a harness bug).
func verifC33Flatten(lay *verifC33Layout) (ents []verifC33Ent, tombs []verifC33MTomb, broken string) {
	for l, lv := range lay.Levels {
		for _, f := range lv.Files {
			for _, p := range f.Points {
				ents = append(ents, verifC33Ent{K: []byte(p.K), Seq: p.Seq, Kind: base.InternalKeyKind(p.Kind), Lvl: l, Val: verifC33Value(p)})
			}
			for _, t := range f.Tombs {
				tombs = append(tombs, verifC33MTomb{Start: []byte(t.Start), End: []byte(t.End), Seq: t.Seq, Lvl: l})
			}
		}
	}
	for i := range ents {
		for j := range ents {
			a, b := &ents[i], &ents[j]
			if i != j && bytes.Equal(a.K, b.K) {
				if a.Seq == b.Seq {
					return ents, tombs, fmt.Sprintf("duplicate point %s", a)
				}
				if a.Lvl < b.Lvl && a.Seq < b.Seq {
					return ents, tombs, fmt.Sprintf("point order: %s above %s", a, b)
				}
			}
		}
		for _, t := range tombs {
			e := &ents[i]
			if verifC33Cmp(t.Start, e.K) <= 0 && verifC33Cmp(e.K, t.End) < 0 {
				if (t.Lvl < e.Lvl && t.Seq <= e.Seq) || (t.Lvl > e.Lvl && t.Seq >= e.Seq) {
					return ents, tombs, fmt.Sprintf("tombstone [%s,%s)#%d(L%d) vs point %s", t.Start, t.End, t.Seq, t.Lvl, e)
				}
			}
		}
	}
	return ents, tombs, ""
}

// ---------------------------------------------------------------------------
// The oracle: filter and sort.

// verifC33Visible returns, in internal-key order, the entries mergingIter must
// surface at the given snapshot: sequence number visible, and not covered by
// a visible range tombstone that lives in a newer level (regardless of
// sequence numbers) or in the same level with a larger sequence number.
func verifC33Visible(ents []verifC33Ent, tombs []verifC33MTomb, snapshot uint64) (out []verifC33Ent, hiddenBySnap, deleted int) {
	for _, e := range ents {
		if e.Seq >= snapshot {
			hiddenBySnap++
			continue
		}
		del := false
		for _, t := range tombs {
			if t.Seq < snapshot && verifC33Cmp(t.Start, e.K) <= 0 && verifC33Cmp(e.K, t.End) < 0 &&
				(t.Lvl < e.Lvl || (t.Lvl == e.Lvl && t.Seq > e.Seq)) {
				del = true
				break
			}
		}
		if del {
			deleted++
			continue
		}
		out = append(out, e)
	}
	sort.Slice(out, func(i, j int) bool {
		if c := verifC33Cmp(out[i].K, out[j].K); c != 0 {
			return c < 0
		}
		return out[i].Seq > out[j].Seq
	})
	return out, hiddenBySnap, deleted
}

// ---------------------------------------------------------------------------
// Building the real thing.

type verifC33Logger struct{}

func (verifC33Logger) Infof(string, ...interface{})  {}
func (verifC33Logger) Errorf(string, ...interface{}) {}
func (verifC33Logger) Fatalf(format string, args ...interface{}) {
	panic(verifC33Fatal(fmt.Sprintf(format, args...)))
}

type verifC33Fatal string

type verifC33Env struct {
	readers    map[base.TableNum]*sstable.Reader
	slices     []manifest.LevelSlice // per level; only for "files"
	fakeKVs    [][]base.InternalKV
	spans      [][]keyspan.Span // fragmented tombstones for fake levels
	mems       []*memTable
	itersOpen  int
	boundTombs int // tombstone pieces that start or end exactly at their file's bound
}

var verifC33KeySchema = colblk.DefaultKeySchema(testkeys.Comparer, 16)
var verifC33MemOpts = func() *Options {
	o := &Options{Comparer: testkeys.Comparer}
	o.EnsureDefaults()
	return o
}()

func verifC33Fragment(ts []verifC33Tomb) []keyspan.Span {
	var out []keyspan.Span
	frag := keyspan.Fragmenter{Cmp: verifC33Cmp, Format: testkeys.Comparer.FormatKey, Emit: func(s keyspan.Span) { out = append(out, s) }}
	for _, t := range ts {
		frag.Add(keyspan.Span{Start: []byte(t.Start), End: []byte(t.End),
			Keys: []keyspan.Key{{Trailer: base.MakeTrailer(base.SeqNum(t.Seq), base.InternalKeyKindRangeDelete)}}})
	}
	frag.Finish()
	return out
}

func verifC33Build(lay *verifC33Layout) (*verifC33Env, error) {
	env := &verifC33Env{readers: map[base.TableNum]*sstable.Reader{}}
	n := len(lay.Levels)
	env.slices = make([]manifest.LevelSlice, n)
	env.fakeKVs = make([][]base.InternalKV, n)
	env.spans = make([][]keyspan.Span, n)
	env.mems = make([]*memTable, n)
	fs := vfs.NewMem()
	tableNum := base.TableNum(1)
	for l := range lay.Levels {
		lv := &lay.Levels[l]
		switch lv.Kind {
		case "fake":
			f := lv.Files[0]
			for _, p := range f.Points {
				env.fakeKVs[l] = append(env.fakeKVs[l], base.MakeInternalKV(
					base.MakeInternalKey([]byte(p.K), base.SeqNum(p.Seq), base.InternalKeyKind(p.Kind)), []byte(verifC33Value(p))))
			}
			env.spans[l] = verifC33Fragment(f.Tombs)
		case "mem":
			mem := newMemTable(memTableOptions{Options: verifC33MemOpts, size: 256 << 10, releaseAccountingReservation: func() {}})
			env.mems[l] = mem
			f := lv.Files[0]
			for _, p := range f.Points {
				var b Batch
				var err error
				k, v := []byte(p.K), []byte(verifC33Value(p))
				switch base.InternalKeyKind(p.Kind) {
				case base.InternalKeyKindSet:
					err = b.Set(k, v, nil)
				case base.InternalKeyKindDelete:
					err = b.Delete(k, nil)
				case base.InternalKeyKindMerge:
					err = b.Merge(k, v, nil)
				case base.InternalKeyKindSingleDelete:
					err = b.SingleDelete(k, nil)
				default:
					err = fmt.Errorf("kind %d not expressible in a batch", p.Kind)
				}
				if err == nil {
					err = mem.apply(&b, base.SeqNum(p.Seq))
				}
				if err != nil {
					return env, err
				}
			}
			for _, t := range f.Tombs {
				var b Batch
				if err := b.DeleteRange([]byte(t.Start), []byte(t.End), nil); err != nil {
					return env, err
				}
				if err := mem.apply(&b, base.SeqNum(t.Seq)); err != nil {
					return env, err
				}
			}
		case "files":
			var metas []*manifest.TableMetadata
			for fi := range lv.Files {
				f := &lv.Files[fi]
				name := fmt.Sprintf("L%d-%d.sst", l, fi)
				wf, err := fs.Create(name, vfs.WriteCategoryUnspecified)
				if err != nil {
					return env, err
				}
				wo := sstable.WriterOptions{Comparer: testkeys.Comparer, TableFormat: lv.format, BlockSize: lv.BlockSize,
					IndexBlockSize: lv.IndexSize, KeySchema: &verifC33KeySchema}
				if lv.Bloom {
					wo.FilterPolicy = bloom.FilterPolicy(10)
				}
				w := sstable.NewRawWriter(objstorageprovider.NewFileWritable(wf), wo)
				for _, p := range f.Points {
					ik := base.MakeInternalKey([]byte(p.K), base.SeqNum(p.Seq), base.InternalKeyKind(p.Kind))
					if err := w.Add(ik, []byte(verifC33Value(p)), false, base.KVMeta{}); err != nil {
						return env, err
					}
				}
				for _, s := range verifC33Fragment(f.Tombs) {
					if err := w.EncodeSpan(s); err != nil {
						return env, err
					}
				}
				if err := w.Close(); err != nil {
					return env, err
				}
				wm, err := w.Metadata()
				if err != nil {
					return env, err
				}
				rf, err := fs.Open(name)
				if err != nil {
					return env, err
				}
				readable, err := objstorage.NewSimpleReadable(rf)
				if err != nil {
					return env, err
				}
				rd, err := sstable.NewReader(context.Background(), readable, sstable.ReaderOptions{
					Comparer: testkeys.Comparer, KeySchemas: sstable.MakeKeySchemas(&verifC33KeySchema),
					FilterDecoders: []TableFilterDecoder{bloom.Decoder}})
				if err != nil {
					_ = readable.Close()
					return env, err
				}
				m := &manifest.TableMetadata{TableNum: tableNum}
				env.readers[tableNum] = rd
				tableNum++
				if wm.HasPointKeys {
					m.ExtendPointKeyBounds(verifC33Cmp, wm.SmallestPoint, wm.LargestPoint)
				}
				if wm.HasRangeDelKeys {
					m.ExtendPointKeyBounds(verifC33Cmp, wm.SmallestRangeDel, wm.LargestRangeDel)
				}
				m.InitPhysicalBacking()
				f.Smallest, f.Largest = m.PointKeyBounds.Smallest().String(), m.PointKeyBounds.Largest().String()
				for _, t := range f.Tombs {
					if bytes.Equal([]byte(t.Start), m.PointKeyBounds.SmallestUserKey()) || bytes.Equal([]byte(t.End), m.PointKeyBounds.LargestUserKey()) {
						env.boundTombs++
					}
				}
				metas = append(metas, m)
			}
			env.slices[l] = manifest.NewLevelSliceKeySorted(verifC33Cmp, metas)
		}
	}
	return env, nil
}

func (e *verifC33Env) close() {
	for _, r := range e.readers {
		_ = r.Close()
	}
	for _, m := range e.mems {
		if m != nil {
			m.free()
		}
	}
}

func (e *verifC33Env) newIters(
	ctx context.Context, file *manifest.TableMetadata, opts *IterOptions, iio internalIterOpts, kinds iterKinds,
) (iterSet, error) {
	e.itersOpen++
	r := e.readers[file.TableNum]
	var set iterSet
	if kinds.RangeDeletion() {
		rd, err := r.NewRawRangeDelIter(ctx, sstable.NoFragmentTransforms, iio.readEnv)
		if err != nil {
			return iterSet{}, err
		}
		if rd != nil {
			// As the file cache does (in invariants builds): tombstones must
			// lie within the file's bounds.
			set.rangeDeletion = keyspan.AssertBounds(rd, file.PointKeyBounds.Smallest(), file.PointKeyBounds.LargestUserKey(), verifC33Cmp)
		}
	}
	if kinds.Point() {
		it, err := r.NewPointIter(ctx, sstable.IterOptions{
			Lower:                opts.GetLowerBound(),
			Upper:                opts.GetUpperBound(),
			Transforms:           sstable.NoTransforms,
			FilterBlockSizeLimit: sstable.AlwaysUseFilterBlock,
			Env:                  iio.readEnv,
			ReaderProvider:       sstable.MakeTrivialReaderProvider(r),
			BlobContext:          sstable.AssertNoBlobHandles,
		})
		if err != nil {
			_ = set.CloseAll()
			return iterSet{}, err
		}
		set.point = it
	}
	return set, nil
}

// verifC33SliceIter is a memtable-like child over a fixed slice. Unlike
// base.FakeIter (whose TrySeekUsingNext handling asserts that the seek key lies
// beyond the previous slice element, which does not hold once mergingIter has
// seeked the level past a newer level's tombstone) it implements the flag the
// way real children do: it never moves backwards.
type verifC33SliceIter struct {
	kvs          []base.InternalKV
	idx          int
	lower, upper []byte
	prefix       []byte
	strictPrefix bool // stop (return nil) at keys beyond the prefix, as FakeIter does
}

var _ base.InternalIterator = (*verifC33SliceIter)(nil)

func (f *verifC33SliceIter) String() string { return "verifC33SliceIter" }

func (f *verifC33SliceIter) at() *base.InternalKV {
	if f.idx < 0 || f.idx >= len(f.kvs) {
		return nil
	}
	return &f.kvs[f.idx]
}

func (f *verifC33SliceIter) SeekGE(key []byte, flags base.SeekGEFlags) *base.InternalKV {
	f.prefix = nil
	return f.seekGE(key, flags)
}

func (f *verifC33SliceIter) seekGE(key []byte, flags base.SeekGEFlags) *base.InternalKV {
	start := 0
	if flags.TrySeekUsingNext() && f.idx > 0 {
		start = f.idx
	}
	f.idx = start
	for f.idx < len(f.kvs) && verifC33Cmp(f.kvs[f.idx].K.UserKey, key) < 0 {
		f.idx++
	}
	kv := f.at()
	if kv != nil && f.upper != nil && verifC33Cmp(kv.K.UserKey, f.upper) >= 0 {
		return nil
	}
	return kv
}

func (f *verifC33SliceIter) SeekPrefixGE(prefix, key []byte, flags base.SeekGEFlags) *base.InternalKV {
	kv := f.seekGE(key, flags)
	f.prefix = prefix
	if kv != nil && f.strictPrefix && !bytes.Equal(verifC33Prefix(kv.K.UserKey), prefix) {
		return nil
	}
	return kv
}

func (f *verifC33SliceIter) SeekLT(key []byte, _ base.SeekLTFlags) *base.InternalKV {
	f.prefix = nil
	f.idx = len(f.kvs) - 1
	for f.idx >= 0 && verifC33Cmp(f.kvs[f.idx].K.UserKey, key) >= 0 {
		f.idx--
	}
	kv := f.at()
	if kv != nil && f.lower != nil && verifC33Cmp(kv.K.UserKey, f.lower) < 0 {
		return nil
	}
	return kv
}

func (f *verifC33SliceIter) First() *base.InternalKV {
	f.prefix = nil
	f.idx = -1
	return f.Next()
}

func (f *verifC33SliceIter) Last() *base.InternalKV {
	f.prefix = nil
	f.idx = len(f.kvs)
	return f.Prev()
}

func (f *verifC33SliceIter) Next() *base.InternalKV {
	if f.idx >= len(f.kvs) {
		return nil
	}
	f.idx++
	kv := f.at()
	if kv == nil {
		return nil
	}
	if f.upper != nil && verifC33Cmp(kv.K.UserKey, f.upper) >= 0 {
		return nil
	}
	if f.prefix != nil && f.strictPrefix && !bytes.Equal(verifC33Prefix(kv.K.UserKey), f.prefix) {
		return nil
	}
	return kv
}

func (f *verifC33SliceIter) NextPrefix(succKey []byte) *base.InternalKV {
	return f.seekGE(succKey, base.SeekGEFlagsNone.EnableTrySeekUsingNext())
}

func (f *verifC33SliceIter) Prev() *base.InternalKV {
	if f.idx < 0 {
		return nil
	}
	f.idx--
	kv := f.at()
	if kv != nil && f.lower != nil && verifC33Cmp(kv.K.UserKey, f.lower) < 0 {
		return nil
	}
	return kv
}

func (f *verifC33SliceIter) Error() error { return nil }
func (f *verifC33SliceIter) Close() error { return nil }
func (f *verifC33SliceIter) SetBounds(lower, upper []byte) {
	f.lower, f.upper, f.prefix = lower, upper, nil
}
func (f *verifC33SliceIter) SetContext(context.Context) {}
func (f *verifC33SliceIter) TreeStepsNode() treesteps.NodeInfo {
	return treesteps.NodeInfof(f, "%T(%p)", f, f)
}

// newMerging builds the mergingIter the way (*Iterator).constructPointIter
// does: memtable-like levels with their range-del iterator set up front,
// levelIters wired to their mergingIterLevel through initRangeDel.
func (e *verifC33Env) newMerging(lay *verifC33Layout, lower, upper []byte, snapshot base.SeqNum, wrap []bool, fakeIter bool, strictPrefix []bool, stats *base.InternalIteratorStats) *mergingIter {
	opts := IterOptions{LowerBound: lower, UpperBound: upper, logger: verifC33Logger{}}
	mlevels := make([]mergingIterLevel, len(lay.Levels))
	for l, lv := range lay.Levels {
		var it internalIterator
		switch lv.Kind {
		case "fake":
			if fakeIter {
				f := base.NewFakeIter(testkeys.Comparer, e.fakeKVs[l])
				f.SetBounds(lower, upper)
				it = f
			} else {
				it = &verifC33SliceIter{kvs: e.fakeKVs[l], lower: lower, upper: upper, strictPrefix: strictPrefix[l]}
			}
			if len(e.spans[l]) > 0 {
				mlevels[l].rangeDelIter = keyspan.NewIter(verifC33Cmp, e.spans[l])
			}
		case "mem":
			it = e.mems[l].newIter(&opts)
			if rd := e.mems[l].newRangeDelIter(&opts); rd != nil {
				mlevels[l].rangeDelIter = rd
			}
		case "files":
			layer := manifest.Level(1 + l%6)
			if l%2 == 0 {
				layer = manifest.L0Sublevel(l)
			}
			li := newLevelIter(context.Background(), opts, testkeys.Comparer, e.newIters, e.slices[l].Iter(), layer, internalIterOpts{})
			li.initRangeDel(&mlevels[l])
			mlevels[l].levelIter = li
			it = li
		}
		if wrap[l] {
			it = invalidating.NewIter(it)
		}
		mlevels[l].iter = it
	}
	m := &mergingIter{}
	m.init(&opts, stats, verifC33Cmp, testkeys.Comparer.Split, mlevels...)
	m.snapshot = snapshot
	// The pointer-hash based random disabling of TrySeekUsingNext would make
	// replays irreproducible; the generator drops the flag at random instead.
	m.forceEnableSeekOpt = true
	return m
}

// ---------------------------------------------------------------------------
// Op driver with the model of the InternalIterator contract.

type verifC33Op struct {
	Op    string  `json:"op"`
	Key   string  `json:"key,omitempty"`
	TSUN  bool    `json:"tsun,omitempty"`
	Lower *string `json:"lower,omitempty"`
	Upper *string `json:"upper,omitempty"`
	Want  string  `json:"want"`
	Got   string  `json:"got,omitempty"`
}

type verifC33Model struct {
	all          []verifC33Ent
	vis          []verifC33Ent
	lower, upper []byte
	pos          int
	dir          int // 0: unpositioned
	prefix       []byte
	prefixDone   bool
	lastSeek     int // 1 SeekGE, 2 SeekPrefixGE; 0: TrySeekUsingNext not available
	lastSeekKey  []byte
	nexts        int
}

func (m *verifC33Model) setBounds(lower, upper []byte) {
	m.lower, m.upper = lower, upper
	m.vis = m.vis[:0]
	for _, e := range m.all {
		if (lower == nil || verifC33Cmp(e.K, lower) >= 0) && (upper == nil || verifC33Cmp(e.K, upper) < 0) {
			m.vis = append(m.vis, e)
		}
	}
	m.dir, m.prefix, m.prefixDone, m.lastSeek = 0, nil, false, 0
}

func (m *verifC33Model) lb(k []byte) int {
	return sort.Search(len(m.vis), func(i int) bool { return verifC33Cmp(m.vis[i].K, k) >= 0 })
}

func (m *verifC33Model) cur() *verifC33Ent {
	if m.pos >= 0 && m.pos < len(m.vis) {
		return &m.vis[m.pos]
	}
	return nil
}

func (m *verifC33Model) clamp(k []byte) []byte {
	if m.lower != nil && verifC33Cmp(k, m.lower) < 0 {
		return m.lower
	}
	if m.upper != nil && verifC33Cmp(k, m.upper) > 0 {
		return m.upper
	}
	return k
}

type verifC33Session struct {
	Snapshot uint64       `json:"snapshot"`
	Wrap     []bool       `json:"invalidating_wrap"`
	// FakeIter: "fake" levels are base.FakeIter (else verifC33SliceIter).
	FakeIter     bool   `json:"base_fake_iter"`
	StrictPrefix []bool `json:"slice_iter_strict_prefix"`
	Ops      []verifC33Op `json:"ops"`
}

func verifC33KVString(kv *base.InternalKV) string {
	if kv == nil {
		return "<nil>"
	}
	v, _, err := kv.Value(nil)
	if err != nil {
		return fmt.Sprintf("%s#%d,%s=<value error %v>", kv.K.UserKey, kv.K.SeqNum(), kv.K.Kind(), err)
	}
	return fmt.Sprintf("%s#%d,%s=%q", kv.K.UserKey, kv.K.SeqNum(), kv.K.Kind(), v)
}

func verifC33WantString(e *verifC33Ent) string {
	if e == nil {
		return "<nil>"
	}
	return fmt.Sprintf("%s#%d,%s=%q", e.K, e.Seq, e.Kind, e.Val)
}

// verifC33RunSession drives one mergingIter. It returns the number of ops
// compared and a description of the first disagreement ("" if none).
func verifC33RunSession(
	r *vcommon.Report, rng *rand.Rand, lay *verifC33Layout, env *verifC33Env, pool []string,
	ents []verifC33Ent, tombs []verifC33MTomb, nOps int, sess *verifC33Session,
) (compared int, class, detail string) {
	snapshot := base.SeqNumMax
	switch x := rng.IntN(10); {
	case x < 3: // cuts off the newest part of the history
		snapshot = base.SeqNum(int(lay.MaxSeq) + 2 - rng.IntN(int(lay.MaxSeq)/2+2))
	case x < 4:
		snapshot = base.SeqNum(rng.IntN(int(lay.MaxSeq) + 3))
	}
	sess.Snapshot = uint64(snapshot)
	model := &verifC33Model{}
	var hid, del int
	model.all, hid, del = verifC33Visible(ents, tombs, uint64(snapshot))
	r.Count("entries_hidden_by_snapshot", int64(hid))
	r.Count("entries_deleted_by_tombstone", int64(del))
	r.Count("entries_visible", int64(len(model.all)))

	poolKey := func() []byte { return []byte(pool[rng.IntN(len(pool))]) }
	// Bounds end in a byte with the low bit set: in invariants builds the
	// sstable iterators disable their monotonic-bounds optimisation for bounds
	// with an even last byte in half of the iterators (chosen by a hash of the
	// iterator's address), which would make a replay irreproducible. With odd
	// bounds the optimisation is always on, as in production builds.
	var boundPool [][]byte
	for _, k := range pool {
		if k[len(k)-1]&1 == 1 {
			boundPool = append(boundPool, []byte(k))
		}
	}
	boundKey := func() []byte { return boundPool[rng.IntN(len(boundPool))] }
	// Seek targets: mostly at or around an entry that exists at the snapshot
	// (visible or not within the current bounds), else anywhere in the pool.
	randKey := func() []byte {
		if len(model.all) > 0 && rng.IntN(10) < 6 {
			k := model.all[rng.IntN(len(model.all))].K
			if rng.IntN(3) == 0 {
				return append([]byte(nil), verifC33Prefix(k)...)
			}
			return append([]byte(nil), k...)
		}
		return poolKey()
	}
	randBounds := func() (lo, up []byte) {
		x := rng.IntN(5)
		if len(boundPool) == 0 || x < 2 {
			return nil, nil
		}
		switch x {
		case 2:
			return boundKey(), nil
		case 3:
			return nil, boundKey()
		}
		if len(boundPool) < 2 {
			return boundKey(), nil
		}
		for {
			lo, up = boundKey(), boundKey()
			if c := verifC33Cmp(lo, up); c < 0 {
				return lo, up
			} else if c > 0 {
				return up, lo
			}
		}
	}
	lower, upper := randBounds()
	model.setBounds(lower, upper)

	sess.Wrap = make([]bool, len(lay.Levels))
	for i := range sess.Wrap {
		sess.Wrap[i] = rng.IntN(3) == 0
	}
	// base.FakeIter asserts a stricter TrySeekUsingNext precondition than the
	// contract (see verifC33SliceIter), so sessions that use it for the
	// "fake" levels never set the flag.
	sess.FakeIter = rng.IntN(4) == 0
	allowTSUN := !sess.FakeIter
	sess.StrictPrefix = make([]bool, len(lay.Levels))
	for i := range sess.StrictPrefix {
		sess.StrictPrefix[i] = rng.IntN(2) == 0
	}
	var stats base.InternalIteratorStats
	iter := env.newMerging(lay, lower, upper, snapshot, sess.Wrap, sess.FakeIter, sess.StrictPrefix, &stats)
	closed := false
	defer func() {
		if !closed {
			// Only reached on a panic; the deferred recover in the caller
			// reports it. Closing may panic again on a broken iterator.
			func() { defer func() { _ = recover() }(); _ = iter.Close() }()
		}
	}()
	strp := func(b []byte) *string {
		if b == nil {
			return nil
		}
		s := string(b)
		return &s
	}
	sess.Ops = append(sess.Ops, verifC33Op{Op: "New", Lower: strp(lower), Upper: strp(upper)})

	lastRel := ""
	for n := 0; n < nOps; n++ {
		m := model
		nv := len(m.vis)
		nextOK := m.dir != 0 && !m.prefixDone && !(m.dir == +1 && m.pos >= nv)
		prevOK := m.dir != 0 && m.prefix == nil && !(m.dir == -1 && m.pos < 0)
		// (*Iterator).NextPrefix refuses to run when the upper bound is a
		// versioned key (nextPrefixNotPermittedByUpperBound: "significant
		// complications for NextPrefix"), which guarantees succKey <= upper to
		// the internal iterators; mirror that guard.
		nextPrefixOK := m.dir == +1 && m.prefix == nil && m.cur() != nil &&
			(m.upper == nil || testkeys.Comparer.Split(m.upper) == len(m.upper))

		// Choose the op.
		op := ""
		if lastRel == "Next" && nextOK && rng.IntN(10) < 6 {
			op = "Next"
		} else if lastRel == "Prev" && prevOK && rng.IntN(10) < 6 {
			op = "Prev"
		} else {
			type cand struct {
				op string
				w  int
			}
			cands := []cand{{"SeekGE", 10}, {"SeekLT", 8}, {"SeekPrefixGE", 8}, {"SetBounds", 1}}
			if m.lower == nil {
				cands = append(cands, cand{"First", 3})
			}
			if m.upper == nil {
				cands = append(cands, cand{"Last", 3})
			}
			if nextOK {
				cands = append(cands, cand{"Next", 22})
			}
			if prevOK {
				cands = append(cands, cand{"Prev", 16})
			}
			if nextPrefixOK {
				cands = append(cands, cand{"NextPrefix", 7})
			}
			if m.lastSeek == 1 {
				cands = append(cands, cand{"SeekGE", 14}) // monotone seek runs
			} else if m.lastSeek == 2 {
				cands = append(cands, cand{"SeekPrefixGE", 14})
			}
			tot := 0
			for _, c := range cands {
				tot += c.w
			}
			x := rng.IntN(tot)
			for _, c := range cands {
				if x < c.w {
					op = c.op
					break
				}
				x -= c.w
			}
		}

		rec := verifC33Op{Op: op}
		var got *base.InternalKV
		var want *verifC33Ent
		prevDir := m.dir
		switch op {
		case "SetBounds":
			lower, upper = randBounds()
			rec.Lower, rec.Upper = strp(lower), strp(upper)
			iter.SetBounds(lower, upper)
			m.setBounds(lower, upper)
			sess.Ops = append(sess.Ops, rec)
			r.Count("op_SetBounds", 1)
			lastRel = ""
			continue
		case "First":
			got = iter.First()
			m.pos, m.dir, m.prefix, m.prefixDone, m.lastSeek = 0, +1, nil, false, 0
			want = m.cur()
		case "Last":
			got = iter.Last()
			m.pos, m.dir, m.prefix, m.prefixDone, m.lastSeek = nv-1, -1, nil, false, 0
			want = m.cur()
		case "SeekGE":
			var k []byte
			flags := base.SeekGEFlagsNone
			// Prefer keys that keep a monotone run going.
			for try := 0; try < 4; try++ {
				k = m.clamp(randKey())
				if m.lastSeek != 1 || verifC33Cmp(m.lastSeekKey, k) <= 0 {
					break
				}
			}
			if allowTSUN && m.lastSeek == 1 && verifC33Cmp(m.lastSeekKey, k) <= 0 && m.pos <= m.lb(k) && rng.IntN(4) != 0 {
				flags = flags.EnableTrySeekUsingNext()
				rec.TSUN = true
			}
			rec.Key = string(k)
			got = iter.SeekGE(k, flags)
			m.pos, m.dir, m.prefix, m.prefixDone = m.lb(k), +1, nil, false
			m.lastSeek, m.lastSeekKey, m.nexts = 1, k, 0
			want = m.cur()
		case "SeekLT":
			k := m.clamp(randKey())
			rec.Key = string(k)
			got = iter.SeekLT(k, base.SeekLTFlagsNone)
			m.pos, m.dir, m.prefix, m.prefixDone, m.lastSeek = m.lb(k)-1, -1, nil, false, 0
			want = m.cur()
		case "SeekPrefixGE":
			var k []byte
			ok := false
			for try := 0; try < 6 && !ok; try++ {
				k = randKey()
				if m.lastSeek == 2 && try < 4 && verifC33Cmp(m.lastSeekKey, k) > 0 {
					continue
				}
				p := verifC33Prefix(k)
				// As (*Iterator).SeekPrefixGE: clamp to a bound only if the
				// bound has the same prefix, else the seek is not issued.
				if m.lower != nil && verifC33Cmp(k, m.lower) < 0 {
					if !bytes.Equal(verifC33Prefix(m.lower), p) {
						continue
					}
					k = m.lower
				} else if m.upper != nil && verifC33Cmp(k, m.upper) > 0 {
					if !bytes.Equal(verifC33Prefix(m.upper), p) {
						continue
					}
					k = m.upper
				}
				ok = true
			}
			if !ok {
				continue
			}
			p := verifC33Prefix(k)
			flags := base.SeekGEFlagsNone
			if allowTSUN && m.lastSeek == 2 && verifC33Cmp(m.lastSeekKey, k) <= 0 && rng.IntN(4) != 0 {
				same := bytes.Equal(m.prefix, p)
				if !same || (!m.prefixDone && m.pos <= m.lb(k)) || (m.prefixDone && m.nexts == 0) {
					flags = flags.EnableTrySeekUsingNext()
					rec.TSUN = true
				}
			}
			rec.Key = string(k)
			got = iter.SeekPrefixGE(p, k, flags)
			m.pos, m.dir, m.prefix = m.lb(k), +1, p
			m.lastSeek, m.lastSeekKey, m.nexts = 2, k, 0
			want = m.cur()
			if want != nil && !bytes.Equal(verifC33Prefix(want.K), p) {
				want = nil
			}
			m.prefixDone = want == nil
		case "Next":
			if m.prefix != nil {
				if m.pos+1 < nv && bytes.Equal(verifC33Prefix(m.vis[m.pos+1].K), m.prefix) {
					m.pos++
					want = m.cur()
				} else {
					m.prefixDone = true
				}
			} else {
				if m.pos < nv {
					m.pos++
				}
				want = m.cur()
			}
			m.dir = +1
			m.nexts++
			got = iter.Next()
		case "Prev":
			if m.pos >= 0 {
				m.pos--
			}
			m.dir, m.lastSeek = -1, 0
			want = m.cur()
			got = iter.Prev()
		case "NextPrefix":
			succ := testkeys.Comparer.ImmediateSuccessor(nil, verifC33Prefix(m.cur().K))
			rec.Key = string(succ)
			m.pos, m.lastSeek = m.lb(succ), 0
			want = m.cur()
			got = iter.NextPrefix(succ)
		}
		if op == "Next" || op == "Prev" {
			lastRel = op
		} else {
			lastRel = ""
		}
		rec.Want = verifC33WantString(want)
		gotS := verifC33KVString(got)
		compared++
		r.Count("op_"+op, 1)
		if rec.TSUN {
			r.Count("seeks_with_TrySeekUsingNext", 1)
		}
		if prevDir != 0 && prevDir != m.dir && (op == "Next" || op == "Prev") {
			r.Count("direction_switches", 1)
		}
		if want == nil {
			r.Count("ops_expecting_exhausted", 1)
		}
		if m.prefix != nil {
			r.Count("ops_in_prefix_mode", 1)
		}
		if gotS != rec.Want {
			rec.Got = gotS
			sess.Ops = append(sess.Ops, rec)
			return compared, "merged-iteration-mismatch",
				fmt.Sprintf("op %d %s(%q tsun=%v) bounds=[%q,%q) snapshot=%d: model %s, mergingIter %s",
					len(sess.Ops)-1, op, rec.Key, rec.TSUN, lower, upper, uint64(snapshot), rec.Want, gotS)
		}
		sess.Ops = append(sess.Ops, rec)
		if err := iter.Error(); err != nil {
			return compared, "unexpected-error", fmt.Sprintf("op %d %s: Error()=%v", len(sess.Ops)-1, op, err)
		}
	}
	closed = true
	if err := iter.Close(); err != nil {
		return compared, "unexpected-error", fmt.Sprintf("Close: %v", err)
	}
	r.Count("points_covered_by_tombstones_stat", int64(stats.PointsCoveredByRangeTombstones))
	return compared, "", ""
}

func verifC33Fingerprint(lay *verifC33Layout) string {
	var sb strings.Builder
	for _, lv := range lay.Levels {
		fmt.Fprintf(&sb, "|%s", lv.Kind)
		for _, f := range lv.Files {
			sb.WriteString("{")
			for _, p := range f.Points {
				fmt.Fprintf(&sb, "%s#%d,%d ", p.K, p.Seq, p.Kind)
			}
			for _, t := range f.Tombs {
				fmt.Fprintf(&sb, "[%s,%s)#%d ", t.Start, t.End, t.Seq)
			}
			sb.WriteString("}")
		}
	}
	return sb.String()
}

func TestVerifC33(t *testing.T) {
	r := vcommon.NewReport("C33", "main")
	defer r.Finish(t)
	r.Rule("each case is a generated multi-level layout satisfying the level invariant (history of SET/DEL/MERGE/SINGLEDEL/SETWITHDEL " +
		"and DeleteRange writes over testkeys prefixes/suffixes, cut into 1-3 key regions whose newer sequence numbers sit in higher levels; " +
		"1-7 levels, each a levelIter over 1-4 real in-memory sstables (random table format, block sizes, bloom filter, tombstones truncated " +
		"to their file), a slice iterator (base.FakeIter in a quarter of the sessions) or a real memTable) driven by 2-4 mergingIters " +
		"(random snapshot, bounds, invalidating wrappers) " +
		"with 25-100 contract-respecting ops each; distinct = distinct layout content; non-trivial = >= 2 levels holding entries, " +
		">= 1 range tombstone or >= 2 files in a level, and >= 50 ops compared against the filter-and-sort model")
	r.Assume("testkeys.Comparer ordering and Split; the sstable writer/reader, memTable and FakeIter children are the real ones and trusted to iterate their own content")
	n := vcommon.Scale(10000, 200000)
	r.Cases(n, func(i int, rng *rand.Rand) {
		lay, pool, gs := verifC33GenLayout(rng)
		var sessions []*verifC33Session
		defer func() {
			if p := recover(); p != nil {
				class, match := "panic", map[string]any{}
				msg := fmt.Sprint(p)
				if f, ok := p.(verifC33Fatal); ok {
					class, msg = "invariant-fatal", string(f)
				}
				if len(msg) > 300 {
					msg = msg[:300]
				}
				match["msg_prefix"] = msg[:min(len(msg), 40)]
				r.Violate(class, msg, map[string]any{"layout": lay, "sessions": sessions, "stack": string(debug.Stack())}, match)
			}
		}()
		ents, tombs, broken := verifC33Flatten(&lay)
		if broken != "" {
			r.Violate("harness-generator-bug", broken, map[string]any{"layout": lay}, nil)
			return
		}
		env, err := verifC33Build(&lay)
		defer env.close()
		if err != nil {
			r.Violate("harness-build-error", err.Error(), map[string]any{"layout": lay}, nil)
			return
		}
		r.Eval(1)
		nSess := 2 + rng.IntN(3)
		total := 0
		for s := 0; s < nSess; s++ {
			r.BeginCase(fmt.Sprintf("%d/%d", i, s))
			sess := &verifC33Session{}
			sessions = append(sessions, sess)
			cmpd, class, detail := verifC33RunSession(r, rng, &lay, env, pool, ents, tombs, 25+rng.IntN(76), sess)
			total += cmpd
			if class != "" {
				last := sess.Ops[len(sess.Ops)-1]
				r.Violate(class, detail, map[string]any{"layout": lay, "session": sess, "pool": pool},
					map[string]any{"op": last.Op, "tsun": last.TSUN, "want_nil": last.Want == "<nil>", "got_nil": last.Got == "<nil>"})
			}
		}
		r.Count("ops_compared", int64(total))
		r.Count("table_iter_sets_opened", int64(env.itersOpen))
		// Coverage facts about the layout.
		lvlWithEnts, nTombs, multiFile, nFiles := 0, 0, false, 0
		for _, lv := range lay.Levels {
			r.SetAdd("level_kinds", lv.Kind)
			if lv.Kind == "files" {
				r.SetAdd("table_formats", lv.Format)
				nFiles += len(lv.Files)
				if len(lv.Files) > 1 {
					multiFile = true
				}
			}
			has := false
			for _, f := range lv.Files {
				has = has || len(f.Points) > 0
				nTombs += len(f.Tombs)
			}
			if has {
				lvlWithEnts++
			}
		}
		r.Count("levels", int64(len(lay.Levels)))
		r.Max("max_levels", int64(len(lay.Levels)))
		r.Count("sstables_built", int64(nFiles))
		r.Count("tombstone_pieces", int64(nTombs))
		r.Count("tombstone_pieces_at_file_bound", int64(env.boundTombs))
		// What the tombstone pieces cover among the points they can delete
		// (older levels, or the same level with a smaller seqnum).
		for _, tb := range tombs {
			cand, cov := 0, 0
			for _, e := range ents {
				if e.Lvl > tb.Lvl || (e.Lvl == tb.Lvl && e.Seq < tb.Seq) {
					cand++
					if verifC33Cmp(tb.Start, e.K) <= 0 && verifC33Cmp(e.K, tb.End) < 0 {
						cov++
					}
				}
			}
			if cov == 0 {
				r.Count("tombstone_pieces_covering_nothing", 1)
			} else if cov == cand {
				r.Count("tombstone_pieces_covering_every_older_point", 1)
			}
		}
		if gs.crossFileTombs > 0 {
			r.Count("layouts_tombstone_crossing_file_boundary", 1)
		}
		if gs.crossRegionTombs > 0 {
			r.Count("layouts_tombstone_split_across_levels", 1)
		}
		if gs.sameSeqPairs > 0 {
			r.Count("layouts_point_and_tombstone_sharing_seqnum", 1)
		}
		if lvlWithEnts >= 2 && (nTombs > 0 || multiFile) && total >= 50 {
			r.Distinct(verifC33Fingerprint(&lay))
		}
		if r.WantSample() && nTombs > 0 && multiFile {
			s := sessions[0]
			ops := s.Ops
			if len(ops) > 12 {
				ops = ops[:12]
			}
			r.Sample(map[string]any{"layout": lay, "snapshot": s.Snapshot, "first_ops": ops})
		}
	})
}
