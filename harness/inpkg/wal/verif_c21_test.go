// C21: WAL failover replays each written batch exactly once, in order.
//
// White-box part (package wal). The real failoverWriter (recordQueue, switch
// replay, Close protocol) runs over a crashable MemFS behind a harness FS that
// can block, delay or fail create / write / sync / close / dir-sync calls per
// directory. A seeded script (a fixed list of steps, a pure function of the
// case RNG) interleaves WriteRecord (sync / no sync), switchToNewDir (from the
// script goroutine or from a concurrent "monitor" goroutine, beyond the switch
// limit too), blocking and unblocking in all orders, I/O errors (whole and
// partial writes), Close, and crash clones with 0 / 50 / 100 % survival of
// unsynced data.
//
// Records are batch encodings: 12-byte header (strictly increasing sequence
// number, count) + unique payload. A few records are LogData-only batches
// (count 0, sequence number of the next data batch), which the reader must
// never return. The record buffer handed to WriteRecord follows the Batch
// life cycle: it is overwritten with 0xA5 as soon as both the producer and the
// writer (RefCount.Unref) have released it, so a replay of an already popped
// queue entry shows up as a phantom (and as a data race).
//
// Oracle (linear time, see verifC21Compare). Three lists:
//
//	produced   records in WriteRecord order (the script goroutine is the single
//	           producer, as the API requires);
//	acked      records whose sync waiter was released with a nil error; one
//	           observer goroutine per waiter notes the release AFTER it happened
//	           and the acknowledged watermark is read BEFORE the clone is taken,
//	           so the monitor is never ahead of the system;
//	read-back  what wal.Scan(pri, sec) + LogicalLog.OpenForRead() returns.
//
//	read-back must be strictly increasing in sequence number       [duplicate], [reorder]
//	every read-back record is byte-identical to a produced one      [phantom]
//	the reader never returns a LogData-only batch                   [logdata-returned]
//	after a Close that returned nil (live FS, the state at the moment Close
//	  returned, and clones with any survival): read-back = produced [lost-after-clean-close]
//	on a crash clone: every data record up to the acknowledged watermark is
//	  there (the record with the acknowledgement itself:            [acked-synced-lost];
//	  an earlier no-sync record covered by a later acknowledgement: [unsynced-before-acked-lost])
//	the read-back has no hole below a record that is present        [not-a-prefix]
//	the logical reader ends with io.EOF or record.ErrUnexpectedEOF (what Open
//	  tolerates for the newest WAL)                                 [reader-hard-error]
//
// Every wait is bounded by a generous watchdog whose firing is Inconclusive;
// all gates are opened before the final waits.
package wal

import (
	"unsafe"
	"bytes"
	"encoding/binary"
	"fmt"
	"io"
	"math/rand/v2"
	"os"
	"runtime"
	"runtime/debug"
	"strings"
	"sync"
	"sync/atomic"
	"testing"
	"time"

	"github.com/cockroachdb/errors"
	"github.com/cockroachdb/pebble/batchrepr"
	"github.com/cockroachdb/pebble/internal/base"
	"github.com/cockroachdb/pebble/internal/verif/vcommon"
	"github.com/cockroachdb/pebble/record"
	"github.com/cockroachdb/pebble/vfs"
	"github.com/prometheus/client_golang/prometheus"
)

// ---------------------------------------------------------------------------
// Harness FS: gates per (directory, operation).

type verifC21Op uint8

const (
	verifC21OpCreate verifC21Op = iota
	verifC21OpWrite
	verifC21OpSync
	verifC21OpClose
	verifC21OpDirSync
	verifC21NumOps
)

var verifC21OpNames = [verifC21NumOps]string{"create", "write", "sync", "close", "dirsync"}
var verifC21DirNames = [2]string{"pri", "sec"}

var verifC21ErrInjected = errors.New("verif: injected I/O error")

const verifC21Watchdog = 150 * time.Second

// verifC21ByteBudget bounds the bytes of big records per script.
const verifC21ByteBudget = 96 << 10

type verifC21Gate struct {
	blocked   bool
	ch        chan struct{}
	failNext  int
	partial   bool
	delayNext int
	delay     time.Duration
}

type verifC21Ctl struct {
	mu       sync.Mutex
	g        [2][verifC21NumOps]verifC21Gate
	released bool
	// statistics (per op)
	hits, blockedCalls, failedCalls, delayedCalls [verifC21NumOps]int64
}

// pass is called before the real operation. It waits while the gate is
// blocked and then reports whether the call must fail.
func (c *verifC21Ctl) pass(dir int, op verifC21Op) (fail, partial bool) {
	c.mu.Lock()
	g := &c.g[dir][op]
	c.hits[op]++
	counted := false
	for g.blocked && !c.released {
		if !counted {
			c.blockedCalls[op]++
			counted = true
		}
		ch := g.ch
		c.mu.Unlock()
		<-ch
		c.mu.Lock()
	}
	var d time.Duration
	if g.failNext > 0 {
		g.failNext--
		fail, partial = true, g.partial
		c.failedCalls[op]++
	} else if g.delayNext > 0 && !c.released {
		g.delayNext--
		d = g.delay
		c.delayedCalls[op]++
	}
	c.mu.Unlock()
	if d > 0 {
		time.Sleep(d)
	}
	return fail, partial
}

func (c *verifC21Ctl) block(dir int, op verifC21Op) {
	c.mu.Lock()
	defer c.mu.Unlock()
	g := &c.g[dir][op]
	if c.released || g.blocked {
		return
	}
	g.blocked = true
	g.ch = make(chan struct{})
}

func (c *verifC21Ctl) unblock(dir int, op verifC21Op) {
	c.mu.Lock()
	defer c.mu.Unlock()
	g := &c.g[dir][op]
	if g.blocked {
		g.blocked = false
		close(g.ch)
	}
}

func (c *verifC21Ctl) fail(dir int, op verifC21Op, n int, partial bool) {
	c.mu.Lock()
	defer c.mu.Unlock()
	if c.released {
		return
	}
	g := &c.g[dir][op]
	g.failNext, g.partial = n, partial
}

func (c *verifC21Ctl) setDelay(dir int, op verifC21Op, n int, d time.Duration) {
	c.mu.Lock()
	defer c.mu.Unlock()
	g := &c.g[dir][op]
	g.delayNext, g.delay = n, d
}

func (c *verifC21Ctl) anyBlocked() bool {
	c.mu.Lock()
	defer c.mu.Unlock()
	for d := range c.g {
		for o := range c.g[d] {
			if c.g[d][o].blocked {
				return true
			}
		}
	}
	return false
}

// releaseAll opens every gate for good (pending failures stay armed).
func (c *verifC21Ctl) releaseAll() {
	c.mu.Lock()
	defer c.mu.Unlock()
	c.released = true
	for d := range c.g {
		for o := range c.g[d] {
			g := &c.g[d][o]
			if g.blocked {
				g.blocked = false
				close(g.ch)
			}
			g.delayNext = 0
		}
	}
}

func verifC21DirOf(name string) int {
	for len(name) > 0 && name[0] == '/' {
		name = name[1:]
	}
	if strings.HasPrefix(name, "sec") {
		return 1
	}
	return 0
}

type verifC21FS struct {
	vfs.FS
	ctl *verifC21Ctl
}

func (fs *verifC21FS) Create(name string, cat vfs.DiskWriteCategory) (vfs.File, error) {
	dir := verifC21DirOf(name)
	if fail, _ := fs.ctl.pass(dir, verifC21OpCreate); fail {
		return nil, verifC21ErrInjected
	}
	f, err := fs.FS.Create(name, cat)
	if err != nil {
		return nil, err
	}
	return &verifC21File{File: f, ctl: fs.ctl, dir: dir}, nil
}

func (fs *verifC21FS) OpenDir(name string) (vfs.File, error) {
	f, err := fs.FS.OpenDir(name)
	if err != nil {
		return nil, err
	}
	return &verifC21File{File: f, ctl: fs.ctl, dir: verifC21DirOf(name), isDir: true}, nil
}

type verifC21File struct {
	vfs.File
	ctl   *verifC21Ctl
	dir   int
	isDir bool
}

func (f *verifC21File) Write(p []byte) (int, error) {
	if fail, partial := f.ctl.pass(f.dir, verifC21OpWrite); fail {
		n := 0
		if partial && len(p) > 1 {
			// a torn write: a prefix reaches the file, the call reports failure
			n, _ = f.File.Write(p[:len(p)/2])
		}
		return n, verifC21ErrInjected
	}
	return f.File.Write(p)
}

func (f *verifC21File) syncOp() verifC21Op {
	if f.isDir {
		return verifC21OpDirSync
	}
	return verifC21OpSync
}

func (f *verifC21File) Sync() error {
	if fail, _ := f.ctl.pass(f.dir, f.syncOp()); fail {
		return verifC21ErrInjected
	}
	return f.File.Sync()
}

func (f *verifC21File) SyncData() error {
	if fail, _ := f.ctl.pass(f.dir, f.syncOp()); fail {
		return verifC21ErrInjected
	}
	return f.File.SyncData()
}

func (f *verifC21File) Close() error {
	if f.isDir {
		return f.File.Close()
	}
	fail, _ := f.ctl.pass(f.dir, verifC21OpClose)
	err := f.File.Close()
	if fail {
		return verifC21ErrInjected
	}
	return err
}

// ---------------------------------------------------------------------------
// Records and the acknowledgement monitor.

type verifC21Rec struct {
	idx   int
	seq   uint64
	count uint32 // 0: LogData-only batch
	sync  bool
	want  []byte // private copy of the encoding
	buf   []byte // handed to WriteRecord; overwritten when fully released
	refs  atomic.Int32
	ack   atomic.Int32 // 0: not (yet) observed, 1: released with nil, 2: released with an error
	wg    *sync.WaitGroup
	errp  *error
	under *atomic.Int64
}

// Ref implements RefCount.
func (r *verifC21Rec) Ref() { r.refs.Add(1) }

// Unref implements RefCount. When nobody holds the buffer any more it is
// reused (overwritten), as a pooled Batch would be.
func (r *verifC21Rec) Unref() {
	n := r.refs.Add(-1)
	if n == 0 {
		for i := range r.buf {
			r.buf[i] = 0xA5
		}
	} else if n < 0 {
		r.under.Add(1)
	}
}

type verifC21Mon struct {
	mu          sync.Mutex
	ackedMaxIdx int // largest produced index acknowledged with nil
	ackedNil    int
	ackedErr    int
}

type verifC21Logger struct{ errs, fatals atomic.Int64 }

func (l *verifC21Logger) Infof(string, ...interface{})  {}
func (l *verifC21Logger) Errorf(string, ...interface{}) { l.errs.Add(1) }
func (l *verifC21Logger) Fatalf(string, ...interface{}) { l.fatals.Add(1) }

// ---------------------------------------------------------------------------
// Script.

type verifC21Step struct {
	Kind    string `json:"k"` // write burst switch block unblock fail delay settle created clone close yield
	Sync    bool   `json:"sync,omitempty"`
	N       int    `json:"n,omitempty"`
	Dir     int    `json:"dir,omitempty"`
	Op      int    `json:"op,omitempty"`
	Partial bool   `json:"partial,omitempty"`
	Pct     int    `json:"pct,omitempty"`
	DelayUs int    `json:"delay_us,omitempty"`
	Async   bool   `json:"async,omitempty"`
}

func (s verifC21Step) String() string {
	switch s.Kind {
	case "write":
		if s.Sync {
			return "W+"
		}
		return "W"
	case "burst":
		return fmt.Sprintf("B%d", s.N)
	case "switch":
		if s.Async {
			return "S~"
		}
		return "S"
	case "block":
		return fmt.Sprintf("K(%s.%s)", verifC21DirNames[s.Dir], verifC21OpNames[s.Op])
	case "unblock":
		return fmt.Sprintf("U(%s.%s)", verifC21DirNames[s.Dir], verifC21OpNames[s.Op])
	case "fail":
		p := ""
		if s.Partial {
			p = "/torn"
		}
		return fmt.Sprintf("F(%s.%s x%d%s)", verifC21DirNames[s.Dir], verifC21OpNames[s.Op], s.N, p)
	case "delay":
		return fmt.Sprintf("D(%s.%s x%d %dus)", verifC21DirNames[s.Dir], verifC21OpNames[s.Op], s.N, s.DelayUs)
	case "clone":
		return fmt.Sprintf("C%d", s.Pct)
	case "close":
		return "X"
	case "settle":
		return "T"
	case "created":
		return "N"
	case "yield":
		return "Y"
	}
	return "?"
}

type verifC21Params struct {
	WN            uint64  `json:"wal_num"`
	InitialDir    int     `json:"initial_dir"`
	SyncOffsets   bool    `json:"wal_sync_offsets"`
	MinSyncUs     int     `json:"min_sync_interval_us"`
	NoSyncOnClose bool    `json:"no_sync_on_close"`
	SyncProb      float64 `json:"sync_prob"`
	BigProb       float64 `json:"big_record_prob"`
	LogDataProb   float64 `json:"logdata_prob"`
	UseSem        bool    `json:"queue_sem_chan"`
	AsyncSwitch   bool    `json:"switch_from_monitor_goroutine"`
	Profile       string  `json:"profile"`
	Huge          bool    `json:"huge_records"`
	// QueueCap, if > 0, is the initial capacity of the failover writer's record
	// queue (white-box; production starts at 8192 entries, which a ~90-record
	// script never fills): small capacities put the full / wrap-around /
	// grow boundaries of recordQueue inside the script.
	QueueCap int `json:"record_queue_initial_capacity"`
}

func verifC21GenScript(rng *rand.Rand) (verifC21Params, []verifC21Step) {
	p := verifC21Params{
		WN:          uint64(1 + rng.IntN(5000)),
		SyncOffsets: rng.IntN(2) == 0,
		SyncProb:    []float64{1, 0.5, 0.5, 0.125, 0.03}[rng.IntN(5)],
		BigProb:     []float64{0, 0.01, 0.03, 0.03, 0.1}[rng.IntN(5)],
		LogDataProb: []float64{0, 0.05, 0.15}[rng.IntN(3)],
		MinSyncUs:   []int{-1, 0, 0, 50, 1000}[rng.IntN(5)],
		UseSem:      rng.IntN(3) != 0,
		AsyncSwitch: rng.IntN(3) == 0,
	}
	if rng.IntN(4) == 0 {
		p.InitialDir = 1
	}
	p.NoSyncOnClose = rng.IntN(4) == 0
	p.QueueCap = []int{0, 1, 2, 3, 4, 5, 8, 16}[rng.IntN(8)]
	p.Huge = rng.IntN(16) == 0
	// profile: how hostile the file systems are
	p.Profile = []string{"stall", "stall", "faulty", "mixed", "mixed", "calm"}[rng.IntN(6)]
	wBlock, wFail, wDelay := 8, 4, 4
	switch p.Profile {
	case "stall":
		wBlock, wFail = 14, 0
	case "faulty":
		wBlock, wFail = 3, 10
	case "calm":
		wBlock, wFail, wDelay = 1, 0, 2
	}

	var steps []verifC21Step
	var blocked [2][verifC21NumOps]bool
	nBlocked := 0
	curDir := p.InitialDir
	closed := false
	nSteps := 18 + rng.IntN(50)
	closeAt := nSteps - rng.IntN(nSteps/3+1) // Close somewhere in the last third (or at the very end)
	switchCalls := 0
	hostileCur := 0 // >0: something was done to the current directory; favour a switch
	pickOp := func() verifC21Op {
		// write and sync stalls are what the failover monitor reacts to; create,
		// close and dir-sync stalls exercise the asynchronous creation and Close.
		return []verifC21Op{verifC21OpWrite, verifC21OpWrite, verifC21OpSync, verifC21OpSync, verifC21OpSync,
			verifC21OpCreate, verifC21OpClose, verifC21OpDirSync}[rng.IntN(8)]
	}
	pickDir := func() int {
		if rng.IntN(4) != 0 {
			return curDir
		}
		return 1 - curDir
	}
	for i := 0; i < nSteps; i++ {
		if i == closeAt && !closed {
			steps = append(steps, verifC21Step{Kind: "close"})
			closed = true
			continue
		}
		wWrite, wBurst, wSwitch := 32, 13, 9
		if closed {
			wWrite, wBurst = 0, 0
			wSwitch = 14
		}
		if hostileCur > 0 {
			wSwitch *= 2
		}
		wUnblock := 0
		if nBlocked > 0 {
			wUnblock = 9 + 3*nBlocked
		}
		wSettle, wCreated, wClone, wYield := 6, 4, 13, 4
		total := wWrite + wBurst + wSwitch + wBlock + wUnblock + wFail + wDelay + wSettle + wCreated + wClone + wYield
		x := rng.IntN(total)
		take := func(w int) bool {
			if x < w {
				return true
			}
			x -= w
			return false
		}
		switch {
		case take(wWrite):
			steps = append(steps, verifC21Step{Kind: "write", Sync: rng.Float64() < p.SyncProb})
		case take(wBurst):
			steps = append(steps, verifC21Step{Kind: "burst", N: 4 + rng.IntN(30)})
		case take(wSwitch):
			steps = append(steps, verifC21Step{Kind: "switch", Async: p.AsyncSwitch && rng.IntN(2) == 0})
			switchCalls++
			curDir = 1 - curDir
			hostileCur = 0
			for o := range blocked[curDir] {
				if blocked[curDir][o] {
					hostileCur++
				}
			}
			if rng.IntN(5) < 3 {
				// usually give the new writer a chance to be created and installed
				// before the next step (it is not, if its directory is stalled)
				steps = append(steps, verifC21Step{Kind: "created"})
			}
		case take(wBlock):
			d, o := pickDir(), pickOp()
			if !blocked[d][o] {
				blocked[d][o] = true
				nBlocked++
			}
			if d == curDir {
				hostileCur++
			}
			steps = append(steps, verifC21Step{Kind: "block", Dir: d, Op: int(o)})
		case take(wUnblock):
			// the k-th currently blocked gate: every unblocking order occurs
			k := rng.IntN(nBlocked)
			for d := 0; d < 2; d++ {
				for o := 0; o < int(verifC21NumOps); o++ {
					if !blocked[d][o] {
						continue
					}
					if k == 0 {
						blocked[d][o] = false
						nBlocked--
						steps = append(steps, verifC21Step{Kind: "unblock", Dir: d, Op: o})
					}
					k--
				}
			}
		case take(wFail):
			d, o := pickDir(), pickOp()
			st := verifC21Step{Kind: "fail", Dir: d, Op: int(o), N: 1 + rng.IntN(2)}
			if o == verifC21OpWrite {
				st.Partial = rng.IntN(2) == 0
			}
			if d == curDir {
				hostileCur++
			}
			steps = append(steps, st)
		case take(wDelay):
			steps = append(steps, verifC21Step{Kind: "delay", Dir: pickDir(), Op: int(pickOp()), N: 1 + rng.IntN(4),
				DelayUs: []int{50, 200, 1000, 3000}[rng.IntN(4)]})
		case take(wSettle):
			steps = append(steps, verifC21Step{Kind: "settle"})
		case take(wCreated):
			steps = append(steps, verifC21Step{Kind: "created"})
		case take(wClone):
			steps = append(steps, verifC21Step{Kind: "clone", Pct: []int{0, 0, 50, 50, 100}[rng.IntN(5)]})
		default:
			steps = append(steps, verifC21Step{Kind: "yield"})
		}
	}
	if !closed {
		steps = append(steps, verifC21Step{Kind: "close"})
	}
	return p, steps
}

// ---------------------------------------------------------------------------
// Reading back.

type verifC21Read struct {
	seq   uint64
	count uint32
	data  []byte
	file  string
}

type verifC21Seg struct {
	Path     string `json:"path"`
	Records  int    `json:"data_records"`
	LogData  int    `json:"logdata_records"`
	FirstSeq uint64 `json:"first_seq"`
	LastSeq  uint64 `json:"last_seq"`
	Term     string `json:"end"`
	Size     int64  `json:"size"`
}

type verifC21ReadBack struct {
	found    bool
	recs     []verifC21Read
	term     error
	segs     []verifC21Seg
	physData int
	dupTails int
	physical bool
}

func verifC21ReadLogical(fs vfs.FS, wn NumWAL, physical bool) (rb verifC21ReadBack, err error) {
	logs, err := Scan(Dir{FS: fs, Dirname: "pri"}, Dir{FS: fs, Dirname: "sec"})
	if err != nil {
		return rb, err
	}
	ll, ok := logs.Get(wn)
	if !ok {
		rb.term = io.EOF
		return rb, nil
	}
	rb.found = true
	rr := ll.OpenForRead()
	for {
		rec, off, err := rr.NextRecord()
		if err != nil {
			rb.term = err
			break
		}
		b, err := io.ReadAll(rec)
		if err != nil {
			rb.term = err
			break
		}
		h, _ := batchrepr.ReadHeader(b)
		rb.recs = append(rb.recs, verifC21Read{seq: uint64(h.SeqNum), count: h.Count, data: b, file: off.PhysicalFile})
	}
	_ = rr.Close()
	if !physical {
		return rb, nil
	}
	rb.physical = true

	// Physical view of every segment, read the way the logical reader reads a
	// segment (stop at the first error): evidence about duplicated tails.
	var maxSeq uint64
	for i := 0; i < ll.NumSegments(); i++ {
		sfs, path := ll.SegmentLocation(i)
		seg := verifC21Seg{Path: path}
		f, err := sfs.Open(path)
		if err != nil {
			seg.Term = "open: " + err.Error()
			rb.segs = append(rb.segs, seg)
			continue
		}
		if st, err := f.Stat(); err == nil {
			seg.Size = st.Size()
		}
		pr := record.NewReader(f, base.DiskFileNum(wn))
		for {
			r, err := pr.Next()
			var b []byte
			if err == nil {
				b, err = io.ReadAll(r)
			}
			if err != nil {
				seg.Term = verifC21ErrName(err)
				break
			}
			h, ok := batchrepr.ReadHeader(b)
			if !ok {
				seg.Term = "short record"
				break
			}
			if h.Count == 0 {
				seg.LogData++
				continue
			}
			if seg.Records == 0 {
				seg.FirstSeq = uint64(h.SeqNum)
			}
			seg.LastSeq = uint64(h.SeqNum)
			seg.Records++
		}
		_ = f.Close()
		if seg.Records > 0 {
			if seg.FirstSeq <= maxSeq {
				rb.dupTails++
			}
			if seg.LastSeq > maxSeq {
				maxSeq = seg.LastSeq
			}
		}
		rb.physData += seg.Records
		rb.segs = append(rb.segs, seg)
	}
	return rb, nil
}

// verifC21ErrName names the usual ends of a log cheaply (Error() of a
// cockroachdb error runs regular expressions).
func verifC21ErrName(err error) string {
	switch {
	case err == nil:
		return "nil"
	case err == io.EOF:
		return "EOF"
	case err == record.ErrUnexpectedEOF:
		return "ErrUnexpectedEOF"
	case err == record.ErrInvalidChunk:
		return "ErrInvalidChunk"
	case err == record.ErrZeroedChunk:
		return "ErrZeroedChunk"
	case errors.Is(err, io.EOF):
		return "EOF"
	case errors.Is(err, record.ErrUnexpectedEOF):
		return "ErrUnexpectedEOF"
	case errors.Is(err, record.ErrInvalidChunk):
		return "ErrInvalidChunk"
	case errors.Is(err, record.ErrZeroedChunk):
		return "ErrZeroedChunk"
	}
	return err.Error()
}

type verifC21Finding struct {
	class  string
	detail string
	match  map[string]any
}

// verifC21Compare is the linear-time oracle. data holds the produced data
// records (count > 0) in production order; mustIdx is the largest produced
// index (over all records) whose presence is required (-1: none); wantAll
// requires every record of data.
func verifC21Compare(data []*verifC21Rec, bySeq map[uint64]int, rb []verifC21Read, mustIdx int, wantAll bool) (out []verifC21Finding, present int) {
	seen := make([]bool, len(data))
	j := 0
	var lastSeq uint64
	add := func(class, detail string, m map[string]any) {
		if len(out) < 6 {
			out = append(out, verifC21Finding{class, detail, m})
		}
	}
	for k, r := range rb {
		if len(r.data) < batchrepr.HeaderLen {
			add("phantom", fmt.Sprintf("read-back record %d is shorter than a batch header (%d bytes)", k, len(r.data)), map[string]any{"kind": "short"})
			continue
		}
		if r.count == 0 {
			add("logdata-returned", fmt.Sprintf("read-back record %d (seq %d) is a LogData-only batch", k, r.seq), nil)
			continue
		}
		if k > 0 && r.seq <= lastSeq {
			di, known := bySeq[r.seq]
			switch {
			case known && seen[di]:
				add("duplicate", fmt.Sprintf("batch seq=%d (produced #%d) returned twice; second time at read-back position %d from %s (previous seq %d)",
					r.seq, data[di].idx, k, r.file, lastSeq), map[string]any{"equal_to_last": r.seq == lastSeq})
			default:
				add("reorder", fmt.Sprintf("batch seq=%d returned at read-back position %d after seq=%d (from %s)", r.seq, k, lastSeq, r.file), nil)
			}
			continue
		}
		lastSeq = r.seq
		for j < len(data) && data[j].seq < r.seq {
			j++
		}
		if j == len(data) || data[j].seq != r.seq {
			add("phantom", fmt.Sprintf("read-back record %d has seq=%d count=%d len=%d which was never written (from %s)", k, r.seq, r.count, len(r.data), r.file),
				map[string]any{"kind": "unknown-seq"})
			continue
		}
		if !bytes.Equal(data[j].want, r.data) {
			add("phantom", fmt.Sprintf("read-back record %d (seq=%d, produced #%d) differs from what was written: got %d bytes, want %d (from %s)",
				k, r.seq, data[j].idx, len(r.data), len(data[j].want), r.file), map[string]any{"kind": "payload"})
			continue
		}
		seen[j] = true
		present++
		j++
	}
	// The read-back is a prefix of the produced data records (a later segment
	// starts at the queue tail, and everything before the tail is synced in an
	// earlier segment): a hole below a record that is present means the logical
	// WAL skipped a batch.
	last := -1
	for i := range data {
		if seen[i] {
			last = i
		}
	}
	for i, d := range data {
		if !seen[i] && i < last && !wantAll && d.idx > mustIdx {
			add("not-a-prefix", fmt.Sprintf("batch seq=%d (produced #%d) is missing although the later batch seq=%d (produced #%d) is read back",
				d.seq, d.idx, data[last].seq, data[last].idx), nil)
			break
		}
	}
	for i, d := range data {
		if seen[i] {
			continue
		}
		if wantAll {
			add("lost-after-clean-close", fmt.Sprintf("Close returned nil but batch seq=%d (produced #%d, sync=%v, %d bytes) is not read back", d.seq, d.idx, d.sync, len(d.want)),
				map[string]any{"sync": d.sync})
		} else if d.idx <= mustIdx {
			if d.sync && d.ack.Load() == 1 {
				add("acked-synced-lost", fmt.Sprintf("batch seq=%d (produced #%d) had its sync acknowledged before the crash but is not read back", d.seq, d.idx), nil)
			} else {
				add("unsynced-before-acked-lost", fmt.Sprintf("batch seq=%d (produced #%d, sync=%v) precedes the acknowledged batch #%d but is not read back", d.seq, d.idx, d.sync, mustIdx), nil)
			}
		}
	}
	return out, present
}

// ---------------------------------------------------------------------------
// One script run.

type verifC21Run struct {
	r      *vcommon.Report
	caseID int
	p      verifC21Params
	steps  []verifC21Step
	rng    *rand.Rand

	mem  *vfs.MemFS
	ctl  *verifC21Ctl
	dirs [2]dirAndFileHandle
	ww   *failoverWriter
	stop *stopper
	sem  chan struct{}
	lg   *verifC21Logger

	created     chan struct{}
	createdSeen int
	swMu        sync.Mutex // guards switchCalls, limitHits, curDir (script and monitor goroutines)
	switchCalls int
	limitHits   int
	curDir      int

	produced                               []*verifC21Rec // all records
	data                                   []*verifC21Rec // count > 0
	bySeq                                  map[uint64]int
	nextSeq                                uint64
	bytes                                  int
	huge                                   int
	tAudit, tClone, tSetup, tSteps, tFinal time.Duration
	mon                                    verifC21Mon
	obsMu                                  sync.Mutex
	obsCond                                *sync.Cond
	obsQ                                   []*verifC21Rec
	obsStop                                bool
	obsDone                                chan struct{}
	under                                  atomic.Int64
	wrErrs                                 int

	closeStarted bool
	closeDone    chan struct{}
	closeErr     error

	monitorCh   chan chan struct{}
	monitorDone chan struct{}

	clones      int
	maxSegs     int
	maxDataSegs int
	dupTails    int
	deduped     int
	violated    bool
	inconcl     bool
	stepNow     int
	segsClosed  atomic.Int64
}

func verifC21WaitCh(ch <-chan struct{}, d time.Duration) bool {
	t := time.NewTimer(d)
	defer t.Stop()
	select {
	case <-ch:
		return true
	case <-t.C:
		return false
	}
}

func (s *verifC21Run) setup() error {
	s.mem = vfs.NewCrashableMem()
	for _, d := range verifC21DirNames {
		if err := s.mem.MkdirAll(d, 0o755); err != nil {
			return err
		}
	}
	root, err := s.mem.OpenDir("")
	if err != nil {
		return err
	}
	if err := root.Sync(); err != nil {
		return err
	}
	_ = root.Close()
	s.ctl = &verifC21Ctl{}
	gfs := &verifC21FS{FS: s.mem, ctl: s.ctl}
	for k, d := range verifC21DirNames {
		f, err := gfs.OpenDir(d)
		if err != nil {
			return err
		}
		s.dirs[k] = dirAndFileHandle{Dir: Dir{FS: gfs, Dirname: d}, File: f}
	}
	s.stop = newStopper()
	s.created = make(chan struct{}, 4096)
	if s.p.UseSem {
		s.sem = make(chan struct{}, 1<<15)
	}
	s.lg = &verifC21Logger{}
	s.bySeq = map[uint64]int{}
	s.nextSeq = 10 + uint64(s.rng.IntN(1000))
	s.mon.ackedMaxIdx = -1
	s.obsCond = sync.NewCond(&s.obsMu)
	s.obsDone = make(chan struct{})
	go s.observe()
	var minSync func() time.Duration
	if s.p.MinSyncUs >= 0 {
		d := time.Duration(s.p.MinSyncUs) * time.Microsecond
		minSync = func() time.Duration { return d }
	}
	so := s.p.SyncOffsets
	s.curDir = s.p.InitialDir
	s.ww, err = newFailoverWriter(failoverWriterOpts{
		wn:                          NumWAL(s.p.WN),
		logger:                      s.lg,
		timeSource:                  defaultTime{},
		jobID:                       1,
		logCreator:                  simpleLogCreator,
		noSyncOnClose:               s.p.NoSyncOnClose,
		preallocateSize:             func() int { return 0 },
		minSyncInterval:             minSync,
		primaryDir:                  s.dirs[0].Dir,
		secondaryDir:                s.dirs[1].Dir,
		queueSemChan:                s.sem,
		stopper:                     s.stop,
		failoverWriteAndSyncLatency: prometheus.NewHistogram(prometheus.HistogramOpts{}),
		writerClosed:                func(logicalLogWithSizesEtc) {},
		segmentClosed:               func(logicalLogWithSizesEtc) { s.segsClosed.Add(1) },
		writerCreatedForTest:        s.created,
		writeWALSyncOffsets:         func() bool { return so },
	}, s.dirs[s.curDir])
	s.switchCalls = 1
	if err == nil && s.p.QueueCap > 0 {
		s.ww.q.mu.Lock()
		s.ww.q.buffer = make([]recordQueueEntry, s.p.QueueCap)
		s.ww.q.mu.Unlock()
	}
	return err
}

func (s *verifC21Run) write(doSync bool) {
	logData := len(s.produced) > 0 && s.rng.Float64() < s.p.LogDataProb
	n := 8 + s.rng.IntN(180)
	if s.rng.Float64() < s.p.BigProb && s.bytes < verifC21ByteBudget {
		// Records that cross 4 KiB crash blocks; once or twice per "huge" script a
		// record that spans 32 KiB log blocks. Sizes are bounded because the
		// reader's bit-flip diagnostic costs 8*len^2 CRC bytes for every torn
		// chunk it meets (seconds for a 32 KiB chunk), and because MemFS.Sync
		// copies the whole file.
		n = []int{1500, 3000, 4096 - 30, 5000, 9000}[s.rng.IntN(5)] + s.rng.IntN(600)
		if s.p.Huge && s.huge < 2 && s.rng.IntN(3) == 0 {
			n = []int{33000, 70000}[s.rng.IntN(2)]
			s.huge++
		}
	}
	s.bytes += n
	rec := &verifC21Rec{idx: len(s.produced), seq: s.nextSeq, sync: doSync, under: &s.under}
	if !logData {
		rec.count = uint32(1 + s.rng.IntN(5))
		s.nextSeq += uint64(rec.count)
	}
	b := make([]byte, batchrepr.HeaderLen+16+n)
	binary.LittleEndian.PutUint64(b[0:8], rec.seq)
	binary.LittleEndian.PutUint32(b[8:12], rec.count)
	binary.LittleEndian.PutUint64(b[12:20], uint64(s.caseID))
	binary.LittleEndian.PutUint64(b[20:28], uint64(rec.idx))
	for i := 28; i < len(b); i += 8 {
		v := s.rng.Uint64()
		for k := 0; k < 8 && i+k < len(b); k++ {
			b[i+k] = byte(v >> (8 * k))
		}
	}
	rec.want = b
	rec.buf = append([]byte(nil), b...)
	rec.refs.Store(1) // the producer's own reference
	var so SyncOptions
	if doSync {
		rec.wg = &sync.WaitGroup{}
		rec.wg.Add(1)
		rec.errp = new(error)
		so = SyncOptions{Done: rec.wg, Err: rec.errp}
		if s.sem != nil {
			s.sem <- struct{}{}
		}
	}
	s.produced = append(s.produced, rec)
	if !logData {
		s.bySeq[rec.seq] = len(s.data)
		s.data = append(s.data, rec)
	}
	_, err := s.ww.WriteRecord(rec.buf, so, rec)
	if err != nil {
		// The DB treats this as fatal. The record is queued nevertheless, so it
		// counts as produced; the script goes on (a superset of what a DB does).
		s.wrErrs++
	}
	if doSync {
		s.obsMu.Lock()
		s.obsQ = append(s.obsQ, rec)
		s.obsCond.Signal()
		s.obsMu.Unlock()
	} else {
		rec.Unref()
	}
}

// observe is the acknowledgement observer: ONE goroutine per script that waits
// for the sync waiters in production order. recordQueue.pop releases waiters in
// index order, so waiting for them sequentially observes every release right
// after it happened (never before), which is all the oracle needs. (One
// goroutine per waiter would observe the same thing; goroutines are expensive
// under the race detector.)
func (s *verifC21Run) observe() {
	defer close(s.obsDone)
	for i := 0; ; i++ {
		s.obsMu.Lock()
		for i >= len(s.obsQ) && !s.obsStop {
			s.obsCond.Wait()
		}
		if i >= len(s.obsQ) {
			s.obsMu.Unlock()
			return
		}
		rec := s.obsQ[i]
		s.obsMu.Unlock()
		rec.wg.Wait()
		e := *rec.errp
		s.mon.mu.Lock()
		if e == nil {
			rec.ack.Store(1)
			s.mon.ackedNil++
			if rec.idx > s.mon.ackedMaxIdx {
				s.mon.ackedMaxIdx = rec.idx
			}
		} else {
			rec.ack.Store(2)
			s.mon.ackedErr++
		}
		s.mon.mu.Unlock()
		rec.Unref() // Commit returns to the client, which closes the batch
	}
}

func (s *verifC21Run) doSwitch() {
	s.swMu.Lock()
	s.curDir = 1 - s.curDir
	dir := s.dirs[s.curDir]
	s.switchCalls++
	s.swMu.Unlock()
	if err := s.ww.switchToNewDir(dir); err != nil {
		s.swMu.Lock()
		s.limitHits++
		s.swMu.Unlock()
		s.created <- struct{}{} // one "created" signal per switch call, as in the normal path
	}
	_, _ = s.ww.ongoingLatencyOrErrorForCurDir()
}

func (s *verifC21Run) numSwitchCalls() int {
	s.swMu.Lock()
	defer s.swMu.Unlock()
	return s.switchCalls
}

func (s *verifC21Run) violate(f verifC21Finding, ctx map[string]any) {
	s.violated = true
	m := map[string]any{"part": "writer"}
	for k, v := range f.match {
		m[k] = v
	}
	ctx["class"] = f.class
	ctx["detail"] = f.detail
	s.r.Violate(f.class, f.detail, ctx, m)
}

func (s *verifC21Run) stepStrings() []string {
	out := make([]string, len(s.steps))
	for i, st := range s.steps {
		out[i] = st.String()
	}
	return out
}

// audit reads the logical WAL back from fs and applies the oracle.
func (s *verifC21Run) audit(fs vfs.FS, kind string, pct int, mustIdx int, wantAll bool) {
	t0 := time.Now()
	defer func() { s.tAudit += time.Since(t0) }()
	// The per-segment physical pass (evidence about duplicated tails) doubles
	// the reading cost; it runs for the final audits and a third of the others.
	physical := kind != "crash" || s.rng.IntN(3) == 0
	rb, err := verifC21ReadLogical(fs, NumWAL(s.p.WN), physical)
	s.clones++
	s.r.Count("audits_"+kind, 1)
	ctx := func() map[string]any {
		var seqs []uint64
		for _, r := range rb.recs {
			seqs = append(seqs, r.seq)
		}
		var prod []string
		for _, d := range s.produced {
			prod = append(prod, fmt.Sprintf("#%d seq=%d count=%d sync=%v len=%d", d.idx, d.seq, d.count, d.sync, len(d.want)))
		}
		if len(prod) > 400 {
			prod = append(prod[:400], "...")
		}
		te := verifC21ErrName(rb.term)
		return map[string]any{
			"case": s.caseID, "params": s.p, "steps": s.stepStrings(), "steps_json": s.steps, "at_step": s.stepNow,
			"audit": kind, "survival_pct": pct, "acked_max_index": mustIdx, "want_all": wantAll,
			"produced": prod, "readback_seqs": seqs, "reader_end": te, "segments": rb.segs,
			"close_err": fmt.Sprint(s.closeErr),
			"note":      "schedules are explored by the Go scheduler; the script fixes the step order only",
		}
	}
	if err != nil {
		s.violate(verifC21Finding{"scan-error", "wal.Scan failed: " + err.Error(), nil}, ctx())
		return
	}
	if len(rb.segs) > s.maxSegs {
		s.maxSegs = len(rb.segs)
	}
	findings, present := verifC21Compare(s.data, s.bySeq, rb.recs, mustIdx, wantAll)
	switch en := verifC21ErrName(rb.term); en {
	case "nil", "EOF":
		s.r.SetAdd("reader_end", "EOF")
	case "ErrUnexpectedEOF":
		s.r.SetAdd("reader_end", en)
		if wantAll {
			s.r.Count("clean_close_reader_end_not_EOF", 1)
		}
	default:
		s.r.SetAdd("reader_end", "hard:"+en)
		findings = append(findings, verifC21Finding{"reader-hard-error",
			fmt.Sprintf("logical reader ended with %q after %d records (audit %s, %d%% survival); Open fails on this", en, len(rb.recs), kind, pct),
			map[string]any{"err": en, "audit": kind}})
	}
	for _, f := range findings {
		s.violate(f, ctx())
	}
	s.r.Count("records_read_logical", int64(len(rb.recs)))
	s.r.Count("records_matched", int64(present))
	if !rb.physical {
		return
	}
	s.r.Count("audits_with_physical_pass", 1)
	if d := rb.physData - len(rb.recs); d > 0 {
		s.r.Count("records_deduplicated_by_reader", int64(d))
		s.deduped += d
	}
	if rb.dupTails > 0 {
		s.r.Count("segments_with_duplicated_tail_seen", int64(rb.dupTails))
		s.dupTails += rb.dupTails
	}
	nonEmpty := 0
	for _, sg := range rb.segs {
		if sg.Records > 0 {
			nonEmpty++
		}
	}
	s.r.Max("max_segments_with_data_in_one_audit", int64(nonEmpty))
	if nonEmpty > s.maxDataSegs {
		s.maxDataSegs = nonEmpty
	}
	if nonEmpty >= 2 {
		s.r.Count("audits_with_2plus_data_segments", 1)
	}
}

func (s *verifC21Run) clone(pct int, kind string, wantAll bool) {
	s.mon.mu.Lock()
	must := s.mon.ackedMaxIdx
	s.mon.mu.Unlock()
	cfg := vfs.CrashCloneCfg{UnsyncedDataPercent: pct}
	if pct > 0 {
		cfg.RNG = rand.New(rand.NewPCG(s.rng.Uint64(), s.rng.Uint64()))
	}
	t0 := time.Now()
	c := s.mem.CrashClone(cfg)
	s.tClone += time.Since(t0)
	s.r.Count("clones_audited", 1)
	s.r.Count(fmt.Sprintf("clones_audited_pct%d", pct), 1)
	s.audit(c, kind, pct, must, wantAll)
}

func (s *verifC21Run) run() {
	r := s.r
	tStart := time.Now()
	err := s.setup()
	s.tSetup = time.Since(tStart)
	tStart = time.Now()
	if err != nil {
		r.Inconclusive("case %d: setup failed: %v", s.caseID, err)
		return
	}
	if s.p.AsyncSwitch {
		// All switchToNewDir calls of this script come from one separate
		// goroutine (the failoverMonitor's role), concurrently with WriteRecord
		// and Close.
		s.monitorCh = make(chan chan struct{}, 256)
		s.monitorDone = make(chan struct{})
		go func() {
			defer close(s.monitorDone)
			for done := range s.monitorCh {
				s.doSwitch()
				if done != nil {
					close(done)
				}
			}
		}()
	}
	cleanCloseSeenWhileBlocked := false
	for i, st := range s.steps {
		s.stepNow = i
		switch st.Kind {
		case "write":
			s.write(st.Sync)
		case "burst":
			for k := 0; k < st.N; k++ {
				s.write(s.rng.Float64() < s.p.SyncProb)
			}
		case "switch":
			switch {
			case s.monitorCh == nil:
				s.doSwitch()
			case st.Async:
				s.monitorCh <- nil // the script goes on immediately
			default:
				done := make(chan struct{})
				s.monitorCh <- done
				if !verifC21WaitCh(done, verifC21Watchdog) {
					r.Inconclusive("case %d: switchToNewDir did not return within %s", s.caseID, verifC21Watchdog)
					s.inconcl = true
					s.ctl.releaseAll()
					return
				}
			}
		case "block":
			s.ctl.block(st.Dir, verifC21Op(st.Op))
		case "unblock":
			s.ctl.unblock(st.Dir, verifC21Op(st.Op))
		case "fail":
			s.ctl.fail(st.Dir, verifC21Op(st.Op), st.N, st.Partial)
		case "delay":
			s.ctl.setDelay(st.Dir, verifC21Op(st.Op), st.N, time.Duration(st.DelayUs)*time.Microsecond)
		case "settle":
			// coverage only: give the flush loops a chance to drain the queue
			for k := 0; k < 40 && s.ww.q.length() > 0; k++ {
				time.Sleep(100 * time.Microsecond)
			}
		case "created":
			// coverage only: wait (briefly) for outstanding writer creations
			deadline := time.Now().Add(3 * time.Millisecond)
			for s.createdSeen < s.numSwitchCalls() {
				if !verifC21WaitCh(s.created, time.Until(deadline)) {
					break
				}
				s.createdSeen++
			}
		case "clone":
			s.clone(st.Pct, "crash", false)
		case "close":
			s.closeStarted = true
			s.closeDone = make(chan struct{})
			go func() {
				_, err := s.ww.Close()
				s.closeErr = err
				close(s.closeDone)
			}()
		case "yield":
			runtime.Gosched()
		}
		if s.closeStarted && !cleanCloseSeenWhileBlocked {
			select {
			case <-s.closeDone:
				// Close returned while the script is still running (possibly with
				// older writers stuck): the state at this moment must already be
				// complete if Close reported success.
				cleanCloseSeenWhileBlocked = true
				if s.closeErr == nil {
					if s.ctl.anyBlocked() {
						r.Count("clean_close_returned_while_gates_blocked", 1)
					}
					s.clone(100, "at-close-return", true)
					s.clone(0, "at-close-return", true)
				}
			default:
			}
		}
	}
	s.tSteps = time.Since(tStart)
	tStart = time.Now()
	defer func() { s.tFinal = time.Since(tStart) }()
	// Close may legitimately need another writer or an unblocked FS; wait a
	// little for it before opening every gate, to catch the "returned while
	// stalled" state when it exists.
	if !cleanCloseSeenWhileBlocked && verifC21WaitCh(s.closeDone, 2*time.Millisecond) && s.closeErr == nil {
		if s.ctl.anyBlocked() {
			r.Count("clean_close_returned_while_gates_blocked", 1)
		}
		s.clone(100, "at-close-return", true)
		s.clone(0, "at-close-return", true)
	}
	s.ctl.releaseAll()
	if s.monitorCh != nil {
		close(s.monitorCh)
		if !verifC21WaitCh(s.monitorDone, verifC21Watchdog) {
			r.Inconclusive("case %d: monitor goroutine did not finish within %s", s.caseID, verifC21Watchdog)
			s.inconcl = true
			return
		}
	}
	if !verifC21WaitCh(s.closeDone, verifC21Watchdog) {
		r.Inconclusive("case %d: Close did not return within %s after all gates were opened (steps %v)", s.caseID, verifC21Watchdog, s.stepStrings())
		s.inconcl = true
		return
	}
	stopped := make(chan struct{})
	go func() { s.stop.stop(); close(stopped) }()
	if !verifC21WaitCh(stopped, verifC21Watchdog) {
		r.Inconclusive("case %d: stopper did not quiesce within %s", s.caseID, verifC21Watchdog)
		s.inconcl = true
		return
	}
	// Close has returned and every goroutine of the writer has finished: every
	// Done() that will ever be called has been called. A sync waiter whose
	// WaitGroup counter is still positive now is lost for good (the committer
	// would hang forever). This is decided on the counter, not on a timeout.
	if verifC21WGCounterUsable() {
		s.obsMu.Lock()
		q := append([]*verifC21Rec(nil), s.obsQ...)
		s.obsMu.Unlock()
		for _, rec := range q {
			if c := verifC21WGCounter(rec.wg); c > 0 {
				s.violate(verifC21Finding{class: "sync-waiter-never-released", detail: fmt.Sprintf(
					"case %d: Close returned (err=%v) and all writer goroutines finished, the record queue holds %d entries, but the sync waiter of record idx=%d seq=%d (queue capacity %d at start) was never signalled (WaitGroup counter %d): the commit that waits for it hangs forever",
					s.caseID, s.closeErr, s.ww.q.length(), rec.idx, rec.seq, s.p.QueueCap, c),
					match: map[string]any{}}, map[string]any{"params": s.p, "steps": s.stepStrings()})
				rec.wg.Add(-int(c)) // release the observer
			}
		}
	}
	s.obsMu.Lock()
	s.obsStop = true
	s.obsCond.Signal()
	s.obsMu.Unlock()
	if !verifC21WaitCh(s.obsDone, verifC21Watchdog) {
		r.Inconclusive("case %d: a sync waiter was not released within %s after Close returned", s.caseID, verifC21Watchdog)
		s.inconcl = true
		return
	}
	for k := range s.dirs {
		_ = s.dirs[k].File.Close()
	}
	s.stepNow = len(s.steps)
	clean := s.closeErr == nil
	s.mon.mu.Lock()
	must := s.mon.ackedMaxIdx
	s.mon.mu.Unlock()
	// quiesced live file system, then what a crash right now would leave
	s.audit(s.mem, "final-live", 100, must, clean)
	s.clone(0, "final-clone", clean)
	s.clone(50, "final-clone", clean)
}

func TestVerifC21(t *testing.T) {
	r := vcommon.NewReport("C21", "writer")
	defer r.Finish(t)
	r.Rule("one case = one seeded script (fixed step list: WriteRecord sync/no-sync, bursts, switchToNewDir, block/unblock/fail/delay of " +
		"create|write|sync|close|dirsync per directory, Close, crash clones 0/50/100%) run against the real failoverWriter on a crashable MemFS; " +
		"non-trivial = at least two physical segments carried data records in some audit (a switch really replayed or continued the log) or an " +
		"injected fault / stall was actually hit by a file operation; distinct key = step list + segment/dup-tail/dedup counts")
	r.Assume("crash model = vfs.MemFS.CrashClone (synced prefix of every file and synced directory entries survive; unsynced 4KiB blocks / entries survive independently)")
	r.Assume("schedules are produced by the Go scheduler plus injected stalls/delays; they are explored, not enumerated")
	n := vcommon.Scale(240, 6000)
	// Many short-lived large objects (log blocks, reader buffers, queue
	// buffers): a lazier GC saves a lot of race-detector bookkeeping.
	defer debug.SetGCPercent(debug.SetGCPercent(600))
	var totalUnder int64
	r.Cases(n, func(i int, rng *rand.Rand) {
		p, steps := verifC21GenScript(rng)
		s := &verifC21Run{r: r, caseID: i, p: p, steps: steps, rng: rng}
		t0 := time.Now()
		s.run()
		if os.Getenv("VERIF_C21_DEBUG") != "" {
			fmt.Printf("case %d: %.2fs records=%d bytes=%d audits=%d profile=%s setup=%.3f steps=%.3f final=%.3f (audit=%.3f clone=%.3f)\n", i, time.Since(t0).Seconds(), len(s.produced), s.bytes, s.clones, p.Profile,
				s.tSetup.Seconds(), s.tSteps.Seconds(), s.tFinal.Seconds(), s.tAudit.Seconds(), s.tClone.Seconds())
		}
		r.Eval(1)
		if s.inconcl {
			return
		}
		var hit, blockedCalls, failedCalls int64
		s.ctl.mu.Lock()
		for o := 0; o < int(verifC21NumOps); o++ {
			hit += s.ctl.hits[o]
			blockedCalls += s.ctl.blockedCalls[o]
			failedCalls += s.ctl.failedCalls[o]
			r.Count("fs_calls_"+verifC21OpNames[o], s.ctl.hits[o])
			r.Count("fs_calls_stalled_"+verifC21OpNames[o], s.ctl.blockedCalls[o])
			r.Count("fs_calls_failed_"+verifC21OpNames[o], s.ctl.failedCalls[o])
			r.Count("fs_calls_delayed_"+verifC21OpNames[o], s.ctl.delayedCalls[o])
		}
		s.ctl.mu.Unlock()
		installed := len(s.ww.getLog().segments)
		r.Count("records_produced", int64(len(s.produced)))
		r.Count("records_produced_logdata", int64(len(s.produced)-len(s.data)))
		r.Count("sync_acks_nil", int64(s.mon.ackedNil))
		r.Count("sync_acks_error", int64(s.mon.ackedErr))
		r.Count("switch_calls", int64(s.switchCalls-1))
		r.Count("switch_limit_exceeded", int64(s.limitHits))
		if installed > 1 {
			r.Count("switches_performed_writer_installed", int64(installed-1))
		}
		r.Max("max_log_writers_installed", int64(installed))
		r.Count("segments_closed_unused", s.segsClosed.Load())
		r.Count("writerecord_errors", int64(s.wrErrs))
		r.Count("logger_errors", s.lg.errs.Load())
		if s.closeErr == nil {
			r.Count("close_clean", 1)
		} else {
			r.Count("close_error", 1)
		}
		if u := s.under.Load(); u > 0 {
			totalUnder += u
			r.Count("unref_underflow", u)
			r.Note("case %d: RefCount.Unref called more often than Ref (%d times)", i, u)
		}
		if s.maxDataSegs >= 2 && (s.dupTails > 0 || s.deduped > 0) {
			r.Count("scripts_with_duplicated_tail", 1)
		}
		if s.maxDataSegs >= 2 {
			r.Count("scripts_with_2plus_data_segments", 1)
		}
		if s.maxDataSegs >= 2 || blockedCalls > 0 || failedCalls > 0 {
			r.Distinct(strings.Join(s.stepStrings(), " "), s.maxDataSegs, s.dupTails, s.deduped, s.closeErr != nil)
		}
		if r.WantSample() && s.dupTails > 0 {
			r.Sample(map[string]any{"case": i, "params": p, "steps": strings.Join(s.stepStrings(), " "),
				"records": len(s.produced), "acked_nil": s.mon.ackedNil, "acked_err": s.mon.ackedErr, "writers_installed": installed,
				"audits": s.clones, "segments_with_dup_tail_over_audits": s.dupTails, "records_deduped_over_audits": s.deduped,
				"close_err": fmt.Sprint(s.closeErr)})
		}
	})
}


// verifC21WGCounter reads the counter of a sync.WaitGroup (the high 32 bits of
// its leading state word). It is only used at full quiescence, to tell "the
// waiter was never signalled" from "the observer goroutine has not run yet"
// without a timeout. verifC21WGCounterUsable self-checks the layout.
func verifC21WGCounter(wg *sync.WaitGroup) int32 {
	return int32(atomic.LoadUint64((*uint64)(unsafe.Pointer(wg))) >> 32)
}

var verifC21WGOnce sync.Once
var verifC21WGOK bool

func verifC21WGCounterUsable() bool {
	verifC21WGOnce.Do(func() {
		if unsafe.Sizeof(sync.WaitGroup{}) < 8 {
			return
		}
		var wg sync.WaitGroup
		if verifC21WGCounter(&wg) != 0 {
			return
		}
		wg.Add(3)
		a := verifC21WGCounter(&wg)
		wg.Done()
		b := verifC21WGCounter(&wg)
		wg.Add(-2)
		c := verifC21WGCounter(&wg)
		verifC21WGOK = a == 3 && b == 2 && c == 0
	})
	return verifC21WGOK
}
