package pebble_test

import (
	"fmt"
	"math/rand/v2"
	"sort"
	"sync"
	"sync/atomic"
	"testing"
	"time"

	"github.com/cockroachdb/pebble"
	"github.com/cockroachdb/pebble/internal/base"
	"github.com/cockroachdb/pebble/internal/verif/dbcheck"
	"github.com/cockroachdb/pebble/internal/verif/vcommon"
	"github.com/cockroachdb/pebble/vfs"
	"github.com/cockroachdb/pebble/vfs/errorfs"
)

// TestVerifC39: no live file is deleted and no dead file lingers.
func TestVerifC39(t *testing.T) {
	R := vcommon.NewReport("C39", "main")
	defer R.Finish(t)
	R.Rule("Histories with iterators, snapshots and EFOS held across flushes, compactions, ingests, excises, blob rewrites and reopen cycles (file " +
		"cache of 1-2 handles, 1-byte block cache). Safety: an observing errorfs sees every Remove / ReuseForWrite of a table, blob or WAL file " +
		"BEFORE it executes and checks the file number against the live set (white-box: versionSet.addLiveFileNums over all live versions + " +
		"protected backings; WALs >= minUnflushedLogNum) taken with DB.mu.TryLock (a failed try is counted as unchecked); liveness of a file " +
		"number only shrinks, so a file found live at remove time is a violation; independently every read is compared with the model, so a " +
		"wrongly deleted pinned file surfaces as a read error. Cleanliness (bounded): after all references are dropped, TestOnlyWaitForCleaning " +
		"returned and no compaction is in progress - and again after close+reopen - no table or blob file may remain in the directory that is " +
		"in no live version. distinct_nontrivial = distinct (history, removed file) pairs checked against the live set.")
	n := vcommon.Scale(100, 2500)
	k := dbcheck.Knobs{Name: "C39", Units: 120, FlushGate: true, RangeKeys: true, Batches: true, Snapshots: true, SnapAudit: true, LongIters: true, EFOS: true,
		Maint: true, MaintHeavy: true, Reopen: true, Ingest: true, Excise: true, BigValues: true, ValueSep: true, AuditEvery: 15,
		NoAutoCompactionsPct: 10, TinyCaches: true}
	R.Cases(n, func(i int, rng *rand.Rand) {
		mem := vfs.NewMem()
		var run *dbcheck.Run
		var mu sync.Mutex
		var viol []string
		var checked, unchecked, removedLogs atomic.Int64
		obs := errorfs.InjectorFunc(func(op errorfs.Op) error {
			if op.Kind != errorfs.OpRemove && op.Kind != errorfs.OpReuseForWrite {
				return nil
			}
			if run == nil || mem.PathDir(op.Path) != "db" {
				return nil
			}
			ft, num, ok := base.ParseFilename(mem, op.Path)
			if !ok || (ft != base.FileTypeTable && ft != base.FileTypeBlob && ft != base.FileTypeLog) {
				return nil
			}
			db := run.CurrentDB()
			if db == nil {
				unchecked.Add(1)
				return nil
			}
			live, minLog, ok := pebble.VerifC39LiveFiles(db)
			if !ok {
				// retry briefly: the deleter does not hold DB.mu
				for j := 0; j < 50 && !ok; j++ {
					time.Sleep(200 * time.Microsecond)
					live, minLog, ok = pebble.VerifC39LiveFiles(db)
				}
				if !ok {
					unchecked.Add(1)
					return nil
				}
			}
			checked.Add(1)
			R.Distinct("rm", i, int(ft), uint64(num))
			bad := false
			if ft == base.FileTypeLog {
				removedLogs.Add(1)
				bad = num >= minLog
			} else {
				_, bad = live[num]
			}
			if bad {
				mu.Lock()
				viol = append(viol, fmt.Sprintf("%v of %s (type %v, number %s) while it is live (minUnflushedLogNum=%s)", op.Kind, op.Path, ft, num, minLog))
				mu.Unlock()
			}
			return nil
		})
		fs := errorfs.Wrap(mem, obs)
		run = dbcheck.NewRunFS(R, "C39", k, i, rng, fs, func(r *dbcheck.Run) { r.NoFinalClose = true })
		run.Execute()
		R.Eval(1)
		flush := func() bool {
			mu.Lock()
			defer mu.Unlock()
			if len(viol) > 0 {
				run.Fail("live-file-deleted", "%s", viol[0])
				return true
			}
			return false
		}
		if run.Failed() || flush() {
			run.CloseAll()
			return
		}
		// cleanliness at a quiescent point
		run.Quiesce()
		db := run.CurrentDB()
		lingering := func(db *pebble.DB, when string) bool {
			var extra []string
			for attempt := 0; attempt < 40; attempt++ {
				db.TestOnlyWaitForCleaning()
				m := db.Metrics()
				if m.Compact.NumInProgress > 0 || m.Flush.NumInProgress > 0 {
					time.Sleep(10 * time.Millisecond)
					continue
				}
				live, _ := pebble.VerifC39LiveFilesBlocking(db)
				ls, err := mem.List("db")
				if err != nil {
					run.Fail("harness-list", "%v", err)
					return true
				}
				extra = extra[:0]
				for _, f := range ls {
					ft, num, ok := base.ParseFilename(mem, f)
					if !ok || (ft != base.FileTypeTable && ft != base.FileTypeBlob) {
						continue
					}
					if _, ok := live[num]; !ok {
						extra = append(extra, f)
					}
				}
				if len(extra) == 0 {
					R.Count("cleanliness_checks_passed", 1)
					return false
				}
				// deletions may still be queued behind a just-finished job
				time.Sleep(10 * time.Millisecond)
			}
			sort.Strings(extra)
			m := db.Metrics()
			run.Fail("dead-file-lingers", "%s: obsolete table/blob file(s) still in the directory after all references were dropped and cleaning was waited for: %v | metrics: tables obsolete=%d zombie=%d, blobs obsolete=%d zombie=%d, compactions in progress=%d, flushes in progress=%d",
				when, extra, m.Table.Physical.Obsolete.Local.Count, m.Table.Physical.Zombie.Local.Count, m.BlobFiles.Obsolete.Local.Count, m.BlobFiles.Zombie.Local.Count, m.Compact.NumInProgress, m.Flush.NumInProgress)
			return true
		}
		if lingering(db, "end of history") || flush() {
			run.CloseAll()
			return
		}
		run.Reopen()
		if !run.Failed() {
			if !lingering(run.CurrentDB(), "after close+reopen") {
				flush()
			}
		}
		run.CloseAll()
		flush()
		R.Count("removals_checked_against_live_set", checked.Load())
		R.Count("removals_unchecked_lock_busy", unchecked.Load())
		R.Count("wal_removals_or_reuses_checked", removedLogs.Load())
	})
}
