package pebble_test

import (
	"context"
	"fmt"
	"math/rand/v2"
	"sort"
	"strings"
	"testing"

	"github.com/cockroachdb/pebble"
	"github.com/cockroachdb/pebble/internal/base"
	"github.com/cockroachdb/pebble/internal/verif/vcommon"
	"github.com/cockroachdb/pebble/vfs"
)

// TestVerifC39Pins: directed-random scenarios for the "no dead file lingers"
// half of C39. A random set of version-pinning objects (iterators, clones,
// snapshot iterators, file-only snapshots before/after their transition,
// iterators that outlive their file-only snapshot, Metrics/LSMViewURL callers)
// is created over a random LSM, the LSM is rewritten underneath them (flushes,
// manual compactions), and the pins are released in a random order on an
// otherwise idle DB (automatic compactions disabled, so nothing but the
// release itself can trigger the deletion). After every release the directory
// is compared with the white-box live set once cleaning has been waited for:
// a table/blob file that is in no live version must be gone; and a file that
// is still live must still exist and every remaining pin must still read its
// frozen contents.
func TestVerifC39Pins(t *testing.T) {
	R := vcommon.NewReport("C39", "pins")
	defer R.Finish(t)
	R.Rule("Idle DB (no automatic compactions). Random pins {iterator, cloned iterator, snapshot iterator, EFOS iterator (before/after transition), " +
		"EFOS itself, iterator outliving its EFOS, concurrent Metrics()/LSMViewURL()} are taken, the LSM is rewritten by flush+manual compaction, and pins are " +
		"released in random order. After each release + TestOnlyWaitForCleaning: every table/blob file in the directory must be in the white-box live set " +
		"(versionSet.addLiveFileNums), every live file must exist, and every remaining pin must still scan exactly its frozen contents. " +
		"distinct_nontrivial = distinct (pin-kind multiset, release order) scenarios.")
	n := vcommon.Scale(150, 3000)
	R.Cases(n, func(ci int, rng *rand.Rand) {
		mem := vfs.NewMem()
		opts := &pebble.Options{FS: mem, DisableAutomaticCompactions: true, FormatMajorVersion: pebble.FormatNewest}
		d, err := pebble.Open("db", opts)
		if err != nil {
			R.Violate("harness-open", err.Error(), nil, nil)
			return
		}
		defer func() {
			if d != nil {
				d.Close()
			}
		}()
		fail := func(class, format string, a ...any) {
			R.Violate(class, fmt.Sprintf("[C39pins case %d] ", ci)+fmt.Sprintf(format, a...), map[string]any{"case": ci}, nil)
		}
		gen := 0
		writeGen := func() {
			gen++
			nk := 3 + rng.IntN(8)
			b := d.NewBatch()
			for j := 0; j < nk; j++ {
				k := fmt.Sprintf("k%02d", rng.IntN(20))
				switch rng.IntN(6) {
				case 0:
					b.Delete([]byte(k), nil)
				default:
					b.Set([]byte(k), []byte(fmt.Sprintf("g%d.%d", gen, j)), nil)
				}
			}
			if err := b.Commit(pebble.NoSync); err != nil {
				fail("harness-commit", "%v", err)
			}
			if err := d.Flush(); err != nil {
				fail("harness-flush", "%v", err)
			}
		}
		scanDB := func(newIter func() (*pebble.Iterator, error)) (string, error) {
			it, err := newIter()
			if err != nil {
				return "", err
			}
			var sb strings.Builder
			for ok := it.First(); ok; ok = it.Next() {
				fmt.Fprintf(&sb, "%s=%s;", it.Key(), it.Value())
			}
			err = it.Error()
			if cerr := it.Close(); err == nil {
				err = cerr
			}
			return sb.String(), err
		}
		for i, m := 0, 2+rng.IntN(4); i < m; i++ {
			writeGen()
		}
		type pin struct {
			kind    string
			frozen  string
			read    func() (string, error) // nil: not readable
			release func() error
		}
		var pins []*pin
		iterRead := func(it *pebble.Iterator) func() (string, error) {
			return func() (string, error) {
				var sb strings.Builder
				for ok := it.First(); ok; ok = it.Next() {
					fmt.Fprintf(&sb, "%s=%s;", it.Key(), it.Value())
				}
				return sb.String(), it.Error()
			}
		}
		allKeys := []pebble.KeyRange{{Start: []byte("a"), End: []byte("z")}}
		npins := 1 + rng.IntN(4)
		for p := 0; p < npins; p++ {
			cur, _ := scanDB(func() (*pebble.Iterator, error) { return d.NewIter(nil) })
			switch k := rng.IntN(7); k {
			case 0:
				it, _ := d.NewIter(nil)
				pins = append(pins, &pin{"iter", cur, iterRead(it), it.Close})
			case 1:
				it, _ := d.NewIter(nil)
				cl, err := it.Clone(pebble.CloneOptions{})
				if err != nil {
					fail("harness-clone", "%v", err)
					it.Close()
					continue
				}
				pins = append(pins, &pin{"iter", cur, iterRead(it), it.Close})
				pins = append(pins, &pin{"clone", cur, iterRead(cl), cl.Close})
			case 2:
				s := d.NewSnapshot()
				it, _ := s.NewIter(nil)
				pins = append(pins, &pin{"snap-iter", cur, iterRead(it), it.Close})
				pins = append(pins, &pin{"snap", cur, func() (string, error) {
					return scanDB(func() (*pebble.Iterator, error) { return s.NewIter(nil) })
				}, s.Close})
			case 3, 4, 5:
				es := d.NewEventuallyFileOnlySnapshot(allKeys)
				transitioned := rng.IntN(3) > 0
				if transitioned {
					if err := d.Flush(); err != nil {
						fail("harness-flush", "%v", err)
					}
					if err := es.WaitForFileOnlySnapshot(context.Background(), 0); err != nil {
						fail("harness-efos-wait", "%v", err)
					}
				}
				kind := "efos-pre"
				if transitioned {
					kind = "efos-fo"
				}
				esRead := func() (string, error) {
					return scanDB(func() (*pebble.Iterator, error) { return es.NewIter(nil) })
				}
				switch k {
				case 3:
					pins = append(pins, &pin{kind, cur, esRead, es.Close})
				case 4:
					// iterator that outlives its EFOS
					it, err := es.NewIter(nil)
					if err != nil {
						fail("harness-efos-iter", "%v", err)
						es.Close()
						continue
					}
					if err := es.Close(); err != nil {
						fail("efos-close", "%v", err)
					}
					pins = append(pins, &pin{kind + "-orphan-iter", cur, iterRead(it), it.Close})
				case 5:
					it, err := es.NewIter(nil)
					if err != nil {
						fail("harness-efos-iter", "%v", err)
						es.Close()
						continue
					}
					cl, err := it.Clone(pebble.CloneOptions{})
					if err != nil {
						fail("harness-clone", "%v", err)
						it.Close()
						es.Close()
						continue
					}
					pins = append(pins, &pin{kind + "-iter", cur, iterRead(it), it.Close})
					pins = append(pins, &pin{kind + "-iter-clone", cur, iterRead(cl), cl.Close})
					pins = append(pins, &pin{kind, cur, esRead, es.Close})
				}
			case 6:
				// a reader of the current version through the metrics/debug APIs
				// (they pin the version only for the duration of the call)
				_ = d.Metrics()
				_ = d.LSMViewURL()
				R.Count("metrics_calls", 2)
			}
			// rewrite the LSM underneath the pins
			for i, m := 0, rng.IntN(3); i < m; i++ {
				writeGen()
			}
			if rng.IntN(2) == 0 {
				if err := d.Compact(context.Background(), []byte("a"), []byte("z"), false); err != nil {
					fail("harness-compact", "%v", err)
				}
			}
		}
		writeGen()
		if err := d.Compact(context.Background(), []byte("a"), []byte("z"), false); err != nil {
			fail("harness-compact", "%v", err)
		}
		var kinds []string
		for _, p := range pins {
			kinds = append(kinds, p.kind)
		}
		// release in a random order, except that a snapshot/EFOS handle used by
		// a read closure is only read while it is still open
		order := rng.Perm(len(pins))
		released := make([]bool, len(pins))
		checkDir := func(when string) bool {
			d.TestOnlyWaitForCleaning()
			live, _ := pebble.VerifC39LiveFilesBlocking(d)
			ls, err := mem.List("db")
			if err != nil {
				fail("harness-list", "%v", err)
				return false
			}
			present := map[base.DiskFileNum]bool{}
			var extra []string
			for _, f := range ls {
				ft, num, ok := base.ParseFilename(mem, f)
				if !ok || (ft != base.FileTypeTable && ft != base.FileTypeBlob) {
					continue
				}
				present[num] = true
				if _, ok := live[num]; !ok {
					extra = append(extra, f)
				}
			}
			R.Count("directory_comparisons", 1)
			for num := range live {
				if !present[num] {
					fail("live-file-missing", "%s: file %s is referenced by a live version but is not in the directory (pins %v)", when, num, kinds)
					return false
				}
			}
			if len(extra) > 0 {
				sort.Strings(extra)
				m := d.Metrics()
				fail("dead-file-lingers", "%s: table/blob file(s) %v are in no live version but remain in the directory after cleaning was waited for on an idle DB (pins %v; metrics: tables obsolete=%d zombie=%d, blobs obsolete=%d zombie=%d)",
					when, extra, kinds, m.Table.Physical.Obsolete.Local.Count, m.Table.Physical.Zombie.Local.Count, m.BlobFiles.Obsolete.Local.Count, m.BlobFiles.Zombie.Local.Count)
				return false
			}
			return true
		}
		var ordKinds []string
		ok := true
		for _, idx := range order {
			p := pins[idx]
			// every still-open pin must read its frozen contents
			for j, q := range pins {
				if released[j] || q.read == nil {
					continue
				}
				got, err := q.read()
				R.Count("pinned_reads", 1)
				if err != nil {
					fail("pinned-read-error", "reading through pin %s: %v (pins %v)", q.kind, err, kinds)
					ok = false
				} else if got != q.frozen {
					fail("pinned-read-wrong", "pin %s reads %q, frozen contents were %q (pins %v)", q.kind, got, q.frozen, kinds)
					ok = false
				}
			}
			if !ok {
				break
			}
			if err := p.release(); err != nil {
				fail("release-error", "releasing %s: %v", p.kind, err)
				ok = false
				break
			}
			released[idx] = true
			ordKinds = append(ordKinds, p.kind)
			R.Count("releases", 1)
			R.SetAdd("pin_kinds", p.kind)
			if !checkDir("after releasing " + p.kind) {
				ok = false
				break
			}
		}
		for j, q := range pins {
			if !released[j] {
				q.release()
			}
		}
		if ok {
			checkDir("after all pins were released")
			cur, _ := scanDB(func() (*pebble.Iterator, error) { return d.NewIter(nil) })
			if err := d.Close(); err != nil {
				fail("close-error", "%v", err)
			}
			d, err = pebble.Open("db", opts)
			if err != nil {
				fail("reopen-error", "%v", err)
				d = nil
				return
			}
			after, _ := scanDB(func() (*pebble.Iterator, error) { return d.NewIter(nil) })
			if after != cur {
				fail("reopen-contents", "contents changed across reopen: %q vs %q", cur, after)
			}
			checkDir("after close+reopen")
		}
		R.Eval(1)
		R.Distinct(strings.Join(ordKinds, ","))
		if R.WantSample() {
			R.Sample(map[string]any{"case": ci, "release_order": ordKinds, "generations": gen})
		}
	})
}
