// C19 (reader level): WAL corruption inside synced data is reported, never hidden.
//
// Logs are written by the real LogWriter in the WAL-sync chunk format into a
// harness file that tracks its own synced length; every k-th record is synced
// and waited for, so the synced offsets in chunk headers advance. The harness
// then damages one region of the file (confined to one 32 KiB block) and reads
// the file with the real Reader.
//
// Oracle, per damaged file. D := first chunk (harness parser) with a changed
// byte. Witnesses := intact chunks W behind D whose header carries
// SyncOffset >= end(D) ("the damaged chunk had been synced").
//
//	(1) every record returned is byte-identical to the record written at that
//	    index, all records that end before D are returned, and the record
//	    containing D is never returned             [corrupt-record-returned,
//	    intact-record-dropped, damaged-chunk-accepted];
//	(2) if a witness exists, the read must end with ErrInvalidChunk or
//	    ErrZeroedChunk. Ending with io.EOF / ErrUnexpectedEOF (a clean end for
//	    the newest WAL) is recorded as
//	      same-block-witness-missed  {witness_scope: same-block}   when every
//	          witness starts in D's own 32 KiB block,
//	      synced-corruption-hidden   {witness_scope: later-block}  when some
//	          witness starts in a later block;
//	(3) writer side (guards (2) against vacuity): a header never promises more
//	    than the harness file had synced when the record was submitted
//	    [synced-offset-overpromise]; and, while the log is still in its first
//	    block (where the writer's byte accounting is exact), a chunk written
//	    after the m-th acknowledged sync carries at least the end offset of
//	    the (m-1)-th synced record [synced-offset-stale].
package record

import (
	"bytes"
	"encoding/binary"
	"fmt"
	"io"
	"math/rand/v2"
	"sort"
	"sync"
	"testing"

	"github.com/cockroachdb/errors"
	"github.com/cockroachdb/pebble/internal/base"
	"github.com/cockroachdb/pebble/internal/verif/vcommon"
)

type verifC19File struct {
	mu     sync.Mutex
	b      []byte
	synced int
	nsync  int
}

func (f *verifC19File) Write(p []byte) (int, error) {
	f.mu.Lock()
	f.b = append(f.b, p...)
	f.mu.Unlock()
	return len(p), nil
}
func (f *verifC19File) Sync() error {
	f.mu.Lock()
	f.synced = len(f.b)
	f.nsync++
	f.mu.Unlock()
	return nil
}
func (f *verifC19File) Close() error { return nil }
func (f *verifC19File) syncedLen() int {
	f.mu.Lock()
	defer f.mu.Unlock()
	return f.synced
}

// verifC19Region is a chunk of the file, or (Pad) the zero padding at the end
// of a block, or (Trailer) the EOF trailer. Regions tile the file.
type verifC19Region struct {
	Off, End int64
	Hdr      int
	Type     byte
	Synced   uint64
	Rec      int // index of the record this chunk belongs to (-1 for pad/trailer)
	LastOf   bool
	Pad      bool
	Trailer  bool
}

func (g verifC19Region) block() int64 { return g.Off / blockSize }

func verifC19Parse(b []byte, logNum uint32) ([]verifC19Region, error) {
	var out []verifC19Region
	n := int64(len(b))
	pos := int64(0)
	rec := 0
	for pos < n {
		blockEnd := min((pos/blockSize+1)*blockSize, n)
		if pos+7 > blockEnd || b[pos+6] == 0 {
			for _, x := range b[pos:blockEnd] {
				if x != 0 {
					return nil, fmt.Errorf("non-zero padding at %d", pos)
				}
			}
			out = append(out, verifC19Region{Off: pos, End: blockEnd, Pad: true, Rec: -1})
			pos = blockEnd
			continue
		}
		ty := b[pos+6]
		ln := int64(binary.LittleEndian.Uint16(b[pos+4:]))
		if ty == recyclableFullChunkEncoding && ln == 0 && pos+11 <= blockEnd && binary.LittleEndian.Uint32(b[pos+7:]) == logNum+1 {
			out = append(out, verifC19Region{Off: pos, End: pos + 11, Hdr: 11, Type: ty, Trailer: true, Rec: -1})
			if pos+11 != n {
				return nil, fmt.Errorf("bytes after the EOF trailer")
			}
			return out, nil
		}
		if ty < walSyncFullChunkEncoding || ty > walSyncLastChunkEncoding {
			return nil, fmt.Errorf("chunk type %d at %d is not a WAL-sync type", ty, pos)
		}
		g := verifC19Region{Off: pos, End: pos + 19 + ln, Hdr: 19, Type: ty, Rec: rec}
		if g.End > blockEnd {
			return nil, fmt.Errorf("chunk at %d crosses the block end", pos)
		}
		if binary.LittleEndian.Uint32(b[pos+7:]) != logNum {
			return nil, fmt.Errorf("chunk at %d has a foreign log number", pos)
		}
		g.Synced = binary.LittleEndian.Uint64(b[pos+11:])
		if ty == walSyncFullChunkEncoding || ty == walSyncLastChunkEncoding {
			g.LastOf = true
			rec++
		}
		out = append(out, g)
		pos = g.End
	}
	return out, nil
}

func verifC19MkRecord(logID uint32, idx int, n int) []byte {
	b := make([]byte, n)
	x := (uint64(logID)<<32|uint64(uint32(idx)))*0x9E3779B97F4A7C15 + 0xD1B54A32D192ED03
	if x == 0 {
		x = 1
	}
	for i := 0; i < n; {
		x ^= x << 13
		x ^= x >> 7
		x ^= x << 17
		v := x
		for k := 0; k < 8 && i < n; k++ {
			b[i] = byte(v) | 1 // never zero: zeroing is then always a change
			v >>= 8
			i++
		}
	}
	if n >= 12 {
		binary.LittleEndian.PutUint32(b[0:], logID|1<<31)
		binary.LittleEndian.PutUint32(b[4:], uint32(idx)|1<<31)
		binary.LittleEndian.PutUint32(b[8:], uint32(n)|1<<31)
	}
	return b
}

type verifC19Log struct {
	LogNum    uint64
	SyncEvery int
	Sizes     []int
	data      []byte
	recs      [][]byte
	regions   []verifC19Region
	recEnd    []int64 // end of the last chunk of record i
	// per record: harness file's synced length when the record was submitted
	syncedBefore []int
	// per record: end offset of the record of the last-but-one acknowledged
	// sync at submission time (-1 if fewer than two)
	ack2 []int64
	// per record: synced length of the file after the record (and its sync, if
	// any) completed
	syncedAfter []int
}

func verifC19WriteLog(rng *rand.Rand, logNum uint64, blocks int) (*verifC19Log, error) {
	f := &verifC19File{}
	l := &verifC19Log{LogNum: logNum, SyncEvery: []int{1, 1, 2, 3, 5}[rng.IntN(5)]}
	w := NewLogWriter(f, base.DiskFileNum(logNum), LogWriterConfig{WriteWALSyncOffsets: func() bool { return true }})
	target := int64(blocks-1)*blockSize + 2000 + rng.Int64N(blockSize-4000)
	if blocks == 1 {
		target = 300 + rng.Int64N(20000)
	}
	var pos int64
	var acks []int64
	for i := 0; pos < target && i < 4000; i++ {
		var n int
		switch v := rng.IntN(100); {
		case v < 55:
			n = 20 + rng.IntN(380)
		case v < 88:
			n = 400 + rng.IntN(2600)
		case v < 98:
			n = 3000 + rng.IntN(17000)
		default:
			n = 33000 + rng.IntN(37000)
		}
		if blocks == 1 && int64(n) > target-pos {
			n = 20 + rng.IntN(380)
		}
		p := verifC19MkRecord(uint32(logNum), i, n)
		l.recs = append(l.recs, p)
		l.Sizes = append(l.Sizes, n)
		l.syncedBefore = append(l.syncedBefore, f.syncedLen())
		if len(acks) >= 2 {
			l.ack2 = append(l.ack2, acks[len(acks)-2])
		} else {
			l.ack2 = append(l.ack2, -1)
		}
		if i%l.SyncEvery == l.SyncEvery-1 {
			var wg sync.WaitGroup
			var serr error
			wg.Add(1)
			off, err := w.SyncRecord(p, &wg, &serr)
			if err != nil {
				return nil, err
			}
			wg.Wait()
			if serr != nil {
				return nil, serr
			}
			pos = off
			acks = append(acks, off)
		} else {
			off, err := w.WriteRecord(p)
			if err != nil {
				return nil, err
			}
			pos = off
		}
		l.syncedAfter = append(l.syncedAfter, f.syncedLen())
	}
	if err := w.Close(); err != nil {
		return nil, err
	}
	f.mu.Lock()
	l.data = f.b
	f.mu.Unlock()
	var err error
	l.regions, err = verifC19Parse(l.data, uint32(logNum))
	if err != nil {
		return nil, err
	}
	for _, g := range l.regions {
		if g.LastOf {
			l.recEnd = append(l.recEnd, g.End)
		}
	}
	if len(l.recEnd) != len(l.recs) {
		return nil, fmt.Errorf("harness parser found %d records, wrote %d", len(l.recEnd), len(l.recs))
	}
	return l, nil
}

// regionAt returns the index of the region containing offset o.
func (l *verifC19Log) regionAt(o int64) int {
	return sort.Search(len(l.regions), func(i int) bool { return l.regions[i].End > o })
}

type verifC19Damage struct {
	Kind     string `json:"kind"`
	From, To int64  // damaged range [From, To)
	Detail   string `json:"detail"`
}

// verifC19Apply damages a copy of the log at region gi with the given pattern;
// the damage never leaves gi's 32 KiB block.
func verifC19Apply(rng *rand.Rand, l *verifC19Log, gi int, kind string, out []byte) verifC19Damage {
	copy(out, l.data)
	g := l.regions[gi]
	blockStart := g.block() * blockSize
	blockEnd := min(blockStart+blockSize, int64(len(out)))
	d := verifC19Damage{Kind: kind}
	switch kind {
	case "bitflip":
		o := g.Off + rng.Int64N(g.End-g.Off)
		bit := rng.IntN(8)
		out[o] ^= 1 << bit
		d.From, d.To, d.Detail = o, o+1, fmt.Sprintf("bit %d of byte %d (chunk offset +%d)", bit, o, o-g.Off)
	case "zero-chunk":
		clear(out[g.Off:g.End])
		d.From, d.To = g.Off, g.End
	case "zero-page":
		o := g.Off + rng.Int64N(g.End-g.Off)
		a := o &^ 4095
		b := min(a+4096, int64(len(out)))
		clear(out[a:b])
		d.From, d.To = a, b
	case "garbage":
		a := g.Off + rng.Int64N(g.End-g.Off)
		b := min(a+1+rng.Int64N(200), blockEnd)
		for i := a; i < b; i++ {
			out[i] ^= byte(1 + rng.IntN(255))
		}
		d.From, d.To = a, b
	case "length-edit":
		old := binary.LittleEndian.Uint16(out[g.Off+4:])
		nv := old
		for nv == old {
			nv = []uint16{0, 1, old + 1, old - 1, 0xffff, uint16(rng.IntN(65536)), uint16(rng.IntN(300))}[rng.IntN(7)]
		}
		binary.LittleEndian.PutUint16(out[g.Off+4:], nv)
		d.From, d.To, d.Detail = g.Off+4, g.Off+6, fmt.Sprintf("length %d -> %d", old, nv)
	case "type-edit":
		old := out[g.Off+6]
		nv := old
		for nv == old {
			nv = []byte{0, 1, 4, 5, 8, 9, 10, 11, 12, 13, 255, byte(rng.IntN(256))}[rng.IntN(12)]
		}
		out[g.Off+6] = nv
		d.From, d.To, d.Detail = g.Off+6, g.Off+7, fmt.Sprintf("type %d -> %d", old, nv)
	case "lognum-edit":
		old := binary.LittleEndian.Uint32(out[g.Off+7:])
		nv := []uint32{old + 1, old - 1, old ^ 1, old ^ (1 << rng.IntN(32)), rng.Uint32()}[rng.IntN(5)]
		if nv == old {
			nv = old + 1
		}
		binary.LittleEndian.PutUint32(out[g.Off+7:], nv)
		d.From, d.To, d.Detail = g.Off+7, g.Off+11, fmt.Sprintf("log number %d -> %d", old, nv)
	case "syncoffset-edit":
		old := binary.LittleEndian.Uint64(out[g.Off+11:])
		nv := []uint64{0, old + 1, old ^ (1 << rng.IntN(40)), uint64(len(out)) + 1000, ^uint64(0)}[rng.IntN(5)]
		if nv == old {
			nv = old + 7
		}
		binary.LittleEndian.PutUint64(out[g.Off+11:], nv)
		d.From, d.To, d.Detail = g.Off+11, g.Off+19, fmt.Sprintf("sync offset %d -> %d", old, nv)
	}
	return d
}

var verifC19Kinds = []string{"bitflip", "zero-chunk", "zero-page", "garbage", "length-edit", "type-edit", "lognum-edit", "syncoffset-edit"}

type verifC19Outcome struct {
	k       int
	term    string
	termErr error
	badIdx  int
	badLen  int
}

func verifC19Read(data []byte, logNum uint64, want [][]byte, buf *[]byte) verifC19Outcome {
	res := verifC19Outcome{badIdx: -1}
	r := NewReader(bytes.NewReader(data), base.DiskFileNum(logNum))
	for {
		rr, err := r.Next()
		if err != nil {
			res.termErr = err
			break
		}
		b := (*buf)[:0]
		var rerr error
		for {
			if len(b) == cap(b) {
				nb := make([]byte, len(b), 2*cap(b)+4096)
				copy(nb, b)
				b = nb
			}
			m, err := rr.Read(b[len(b):cap(b)])
			b = b[:len(b)+m]
			if err == io.EOF {
				break
			}
			if err != nil {
				rerr = err
				break
			}
		}
		*buf = b
		if rerr != nil {
			res.termErr = rerr
			break
		}
		if res.k >= len(want) || !bytes.Equal(b, want[res.k]) {
			res.badIdx, res.badLen = res.k, len(b)
			res.term = "mismatch"
			return res
		}
		res.k++
	}
	switch {
	case res.termErr == io.EOF:
		res.term = "eof"
	case errors.Is(res.termErr, ErrUnexpectedEOF):
		res.term = "unexpected-eof"
	case errors.Is(res.termErr, ErrInvalidChunk):
		res.term = "invalid-chunk"
	case errors.Is(res.termErr, ErrZeroedChunk):
		res.term = "zeroed-chunk"
	default:
		res.term = "other"
	}
	return res
}

// verifC19Witness computes, for damage starting in region di of an otherwise
// intact log, whether an intact later chunk promises that region di had been
// synced, and where the witnesses are.
func verifC19Witness(l *verifC19Log, di int, dmgEnd int64) (same, later int, first verifC19Region) {
	d := l.regions[di]
	for j := di + 1; j < len(l.regions); j++ {
		w := l.regions[j]
		if w.Pad || w.Trailer || w.Off < dmgEnd {
			continue
		}
		if w.Synced >= uint64(d.End) {
			if same+later == 0 {
				first = w
			}
			if w.block() == d.block() {
				same++
			} else {
				later++
			}
		}
	}
	return
}

func TestVerifC19Reader(t *testing.T) {
	r := vcommon.NewReport("C19", "reader")
	defer r.Finish(t)
	r.Rule("case = one seeded WAL-sync log written by LogWriter (2..5 blocks, thorough 2..8, and one log in four shorter than one block; record sizes 20..70000 mixed; every k-th record synced and awaited, k in {1,2,3,5}). " +
		"Damage enumeration per log: for EVERY chunk of every block but the last, each of the 8 patterns once (single bit flip at a seeded bit of the chunk, zeroed chunk, zeroed 4KiB page, 1..200 bytes of garbage, " +
		"length-field edit, type-field edit, log-number-field edit (incl. +1 and -1), sync-offset-field edit); for every chunk of the last block one seeded pattern; plus 40 seeded interior offsets (any region incl. padding) with bit flip / garbage / zeroed page. " +
		"All damage stays inside one 32KiB block. An evaluation = one read of one damaged file; distinct non-trivial = (case, damaged block, pattern) with at least one read where the file really changed and a witness (intact later chunk with SyncOffset >= end of damaged chunk) exists.")
	r.Assume("the harness chunk parser decides which chunk is damaged and which later chunks are intact witnesses; it is applied to the undamaged file written by the real writer, and parse disagreements are reported as harness-parse-error")
	thorough := vcommon.Thorough()
	n := vcommon.Scale(48, 1200)
	var buf []byte
	var capSame, capLater, capOther int
	r.Cases(n, func(ci int, rng *rand.Rand) {
		blocks := 2 + rng.IntN(4)
		if thorough {
			blocks = 2 + rng.IntN(7)
		}
		if rng.IntN(4) == 0 {
			// a WAL shorter than one block: the common case for a small store
			blocks = 1
		}
		logNum := uint64(2 + rng.IntN(100000))
		if rng.IntN(8) == 0 {
			logNum = []uint64{1, 0xFFFFFFFE, 0xFFFFFFFF, 1 << 32}[rng.IntN(4)]
		}
		l, err := verifC19WriteLog(rng, logNum, blocks)
		if err != nil {
			r.Violate("harness-parse-error", err.Error(), map[string]any{"case": ci}, nil)
			return
		}
		r.Count("logs_written", 1)
		r.Count("records_written", int64(len(l.recs)))
		r.SetAdd("sync_every", fmt.Sprint(l.SyncEvery))
		r.SetAdd("log_blocks", fmt.Sprint((len(l.data)+blockSize-1)/blockSize))
		lastBlock := int64(len(l.data)-1) / blockSize
		spec := map[string]any{"log_num": l.LogNum, "sync_every": l.SyncEvery, "sizes": l.Sizes, "file_len": len(l.data)}

		// (3) writer side
		nchunks := 0
		var prevSynced uint64
		for _, g := range l.regions {
			if g.Pad || g.Trailer {
				continue
			}
			nchunks++
			lag := int64(l.syncedBefore[g.Rec]) - int64(g.Synced)
			r.Max("max_header_sync_offset_lag_behind_true_synced_length", lag)
			if g.Synced > uint64(l.syncedBefore[g.Rec]) {
				r.Violate("synced-offset-overpromise", fmt.Sprintf("chunk at %d (record %d) carries SyncOffset %d but the file had only %d bytes synced when the record was submitted",
					g.Off, g.Rec, g.Synced, l.syncedBefore[g.Rec]), map[string]any{"case": ci, "log": spec, "chunk_offset": g.Off}, nil)
			}
			if g.Synced < prevSynced {
				r.Violate("synced-offset-regressed", fmt.Sprintf("chunk at %d carries SyncOffset %d after an earlier chunk carried %d", g.Off, g.Synced, prevSynced),
					map[string]any{"case": ci, "log": spec, "chunk_offset": g.Off}, nil)
			}
			prevSynced = g.Synced
			if g.Off < blockSize && l.ack2[g.Rec] >= 0 {
				r.Count("first_block_chunks_checked_for_stale_sync_offset", 1)
				if int64(g.Synced) < l.ack2[g.Rec] {
					r.Violate("synced-offset-stale", fmt.Sprintf("chunk at %d (record %d, first block) carries SyncOffset %d although the sync of the record ending at %d had been acknowledged one sync earlier",
						g.Off, g.Rec, g.Synced, l.ack2[g.Rec]), map[string]any{"case": ci, "log": spec, "chunk_offset": g.Off}, nil)
				}
			}
		}
		r.Count("chunks_written", int64(nchunks))

		out := make([]byte, len(l.data))
		eval := func(gi int, kind string) {
			dmg := verifC19Apply(rng, l, gi, kind, out)
			// first changed byte
			fdb := int64(-1)
			for o := dmg.From; o < dmg.To; o++ {
				if out[o] != l.data[o] {
					fdb = o
					break
				}
			}
			if fdb < 0 {
				r.Count("noop_damage_skipped", 1)
				return
			}
			di := l.regionAt(fdb)
			D := l.regions[di]
			r.BeginCase(fmt.Sprintf("%d/%s@%d", ci, kind, D.Off))
			// bit-flip diagnostic (O(8*len^2) CRC work) only for small chunks
			disableBitFlipCheckForTesting = true
			if !D.Pad && D.Off+6 <= int64(len(out)) {
				if pl := binary.LittleEndian.Uint16(out[D.Off+4:]); pl <= 256 {
					disableBitFlipCheckForTesting = false
					r.Count("reads_with_bitflip_diagnostic_on", 1)
				}
			}
			res := verifC19Read(out, l.LogNum, l.recs, &buf)
			r.Eval(1)
			r.Count("reads_"+kind, 1)
			r.SetAdd("terminal_"+kind, res.term)
			replay := func() map[string]any {
				return map[string]any{"case": ci, "log": spec, "damage": dmg, "damaged_range": []int64{dmg.From, dmg.To}, "damaged_chunk_offset": D.Off, "damaged_chunk_end": D.End,
					"damaged_chunk_is_padding": D.Pad, "returned_records": res.k, "terminal_error": fmt.Sprint(res.termErr)}
			}
			if res.badIdx >= 0 {
				r.Violate("corrupt-record-returned", fmt.Sprintf("%s in chunk at %d: record #%d returned by the reader (%d bytes) differs from record #%d written", kind, D.Off, res.badIdx, res.badLen, res.badIdx), replay(), map[string]any{"damage": kind})
				return
			}
			if res.term == "other" {
				r.Violate("bad-terminal-error", fmt.Sprintf("%s in chunk at %d: reader ended with %v", kind, D.Off, res.termErr), replay(), map[string]any{"damage": kind})
				return
			}
			if D.Pad || D.Trailer {
				// Damage that starts in block padding or in the EOF trailer: no
				// record is affected. Nothing is demanded beyond (1) for the
				// records returned; count what happened.
				r.Count("damage_in_padding_or_trailer", 1)
				if res.k == len(l.recs) && res.term == "eof" {
					r.Count("padding_damage_invisible", 1)
				}
				return
			}
			before := sort.Search(len(l.recEnd), func(i int) bool { return l.recEnd[i] > D.Off })
			if res.k < before {
				r.Violate("intact-record-dropped", fmt.Sprintf("%s in chunk at %d: reader returned %d records but %d records end before the damaged chunk (terminal %v)", kind, D.Off, res.k, before, res.termErr), replay(), map[string]any{"damage": kind})
				return
			}
			if res.k > D.Rec {
				r.Violate("damaged-chunk-accepted", fmt.Sprintf("%s in chunk at %d (record %d): reader returned %d records, i.e. accepted the damaged chunk", kind, D.Off, D.Rec, res.k), replay(), map[string]any{"damage": kind})
				return
			}
			same, later, firstW := verifC19Witness(l, di, dmg.To)
			detected := res.term == "invalid-chunk" || res.term == "zeroed-chunk"
			scope := "none"
			if later > 0 {
				scope = "later-block"
			} else if same > 0 {
				scope = "same-block"
			}
			r.Count("damaged_reads_witness_"+scope, 1)
			if scope != "none" {
				r.Distinct(ci, D.block(), kind)
			}
			if detected {
				r.Count("corruption_reported_witness_"+scope, 1)
				return
			}
			r.Count("clean_end_witness_"+scope, 1)
			if scope == "none" {
				// no header witnesses the damage. Was the damaged chunk truly synced
				// (harness file's knowledge) before some later intact chunk was written?
				for j := di + 1; j < len(l.regions); j++ {
					w := l.regions[j]
					if !w.Pad && !w.Trailer && w.Off >= dmg.To && int64(l.syncedBefore[w.Rec]) >= D.End {
						r.Count("clean_end_no_header_witness_although_truly_synced_before_a_later_chunk", 1)
						break
					}
				}
				return
			}
			lognum := "same"
			if D.Off+11 <= int64(len(out)) {
				switch binary.LittleEndian.Uint32(out[D.Off+7:]) {
				case uint32(l.LogNum):
				case uint32(l.LogNum) + 1:
					lognum = "next"
				default:
					lognum = "other"
				}
			}
			match := map[string]any{"witness_scope": scope, "level": "reader", "damage": kind, "terminal": res.term, "damaged_lognum_field": lognum}
			rp := replay()
			rp["witnesses_same_block"], rp["witnesses_later_block"] = same, later
			rp["first_witness"] = map[string]any{"offset": firstW.Off, "sync_offset": firstW.Synced, "block": firstW.block()}
			detail := fmt.Sprintf("%s in chunk [%d,%d) of block %d (record %d): reader returned %d records and ended with %v (a clean end for the newest WAL) although %d intact later chunk(s) carry SyncOffset >= %d "+
				"(first: chunk at %d in block %d with SyncOffset %d; %d in the same block, %d in later blocks)", kind, D.Off, D.End, D.block(), D.Rec, res.k, res.termErr, same+later, D.End, firstW.Off, firstW.block(), firstW.Synced, same, later)
			if scope == "same-block" {
				r.Count("same_block_witness_missed", 1)
				r.SetAdd("same_block_miss_kinds", kind+"/"+res.term+"/lognum-"+lognum)
				if capSame < 3 {
					capSame++
					r.Violate("same-block-witness-missed", detail, rp, match)
				}
			} else {
				r.Count("later_block_witness_missed", 1)
				r.SetAdd("later_block_miss_kinds", kind+"/"+res.term+"/lognum-"+lognum)
				if lognum == "next" {
					if capLater < 3 {
						capLater++
						r.Violate("synced-corruption-hidden", detail, rp, match)
					}
				} else if capOther < 10 {
					capOther++
					r.Violate("synced-corruption-hidden", detail, rp, match)
				}
			}
		}

		for gi, g := range l.regions {
			if g.Pad || g.Trailer {
				continue
			}
			if g.block() < lastBlock {
				for _, k := range verifC19Kinds {
					eval(gi, k)
				}
			} else {
				eval(gi, verifC19Kinds[rng.IntN(len(verifC19Kinds))])
			}
		}
		for s := 0; s < 40; s++ {
			o := rng.Int64N(int64(len(l.data)))
			gi := l.regionAt(o)
			// the region containing the seeded offset (may be padding or the
			// trailer); the exact bytes are drawn by verifC19Apply
			eval(gi, []string{"bitflip", "garbage", "zero-page"}[rng.IntN(3)])
		}
		if r.WantSample() {
			r.Sample(map[string]any{"case": ci, "log": map[string]any{"log_num": l.LogNum, "sync_every": l.SyncEvery, "records": len(l.recs), "file_len": len(l.data), "chunks": nchunks}})
		}
	})
}
