// C18: record log round-trips and truncation yields a clean prefix.
//
// Oracle. Logs are produced by the three real writers (legacy Writer,
// LogWriter in the recyclable format, LogWriter in the WAL-sync format). Every
// record is a deterministic function of (log id, index, length) and carries that
// triple in its first 12 bytes, so the harness can tell a foreign, reordered,
// merged or partial record from the expected one. The harness then damages the
// file (cut at o, zero the tail from o, recycled-file overlay = new log written
// over an older, longer log with a smaller log number and spliced at o) and reads
// it with Reader. Required of every read:
//
//	(a) the k records returned are byte-identical to the first k records written;
//	(b) k >= number of records whose last chunk lies completely inside the
//	    undamaged prefix (nothing that is intact is dropped), k == all for an
//	    intact file;
//	(c) the read ends with io.EOF or an error e with errors.Is(e, ErrUnexpectedEOF
//	    | ErrInvalidChunk | ErrZeroedChunk); an intact file ends with io.EOF;
//	(d) for the WAL-sync format the end is io.EOF or ErrUnexpectedEOF: for that
//	    format ErrInvalidChunk/ErrZeroedChunk mean "confirmed corruption" to
//	    recovery (recovery.go), which a cut, a zeroed tail or a recycled file
//	    must never produce.
//
// The harness parses chunk boundaries with its own 40-line parser (verifC18ParseChunks below)
// only to choose offsets and to compute (b); the deciding comparison is on the
// bytes returned by the real reader.
package record

import (
	"bytes"
	"crypto/sha256"
	"encoding/binary"
	"encoding/hex"
	"fmt"
	"io"
	"math/rand/v2"
	"sort"
	"sync"
	"testing"

	"github.com/cockroachdb/errors"
	"github.com/cockroachdb/pebble/internal/base"
	"github.com/cockroachdb/pebble/internal/verif/vcommon"
)

const (
	verifC18FmtLegacy = iota
	verifC18FmtRecyclable
	verifC18FmtWALSync
)

var verifC18FmtNames = []string{"legacy", "recyclable", "walsync"}
var verifC18FmtHdr = []int{7, 11, 19}

// verifC18MemFile is the io.Writer (+Sync+Close) handed to the writers.
type verifC18MemFile struct {
	mu    sync.Mutex
	b     []byte
	syncs int
}

func (f *verifC18MemFile) Write(p []byte) (int, error) {
	f.mu.Lock()
	f.b = append(f.b, p...)
	f.mu.Unlock()
	return len(p), nil
}
func (f *verifC18MemFile) Sync() error  { f.mu.Lock(); f.syncs++; f.mu.Unlock(); return nil }
func (f *verifC18MemFile) Close() error { return nil }
func (f *verifC18MemFile) bytes() []byte {
	f.mu.Lock()
	defer f.mu.Unlock()
	return f.b
}

// verifC18MkRecord returns the n-byte record (logID, idx): 12-byte identity header (if it
// fits) followed by a xorshift stream keyed by the identity.
func verifC18MkRecord(logID uint32, idx int, n int) []byte {
	b := make([]byte, n)
	x := uint64(logID)<<32 | uint64(uint32(idx))
	x = x*0x9E3779B97F4A7C15 + 0xD1B54A32D192ED03
	if x == 0 {
		x = 1
	}
	i := 0
	for i < n {
		x ^= x << 13
		x ^= x >> 7
		x ^= x << 17
		v := x
		for k := 0; k < 8 && i < n; k++ {
			b[i] = byte(v)
			v >>= 8
			i++
		}
	}
	if n >= 12 {
		binary.LittleEndian.PutUint32(b[0:], logID)
		binary.LittleEndian.PutUint32(b[4:], uint32(idx))
		binary.LittleEndian.PutUint32(b[8:], uint32(n))
	}
	return b
}

// verifC18NextSize draws the next record size given the offset pos at which the next
// chunk header will be placed.
func verifC18NextSize(rng *rand.Rand, pos int64, hdr int) int {
	rem := blockSize - int(pos%blockSize)
	if rem < hdr {
		rem = blockSize
	}
	switch v := rng.IntN(100); {
	case v < 8:
		return 0
	case v < 16:
		return 1
	case v < 28:
		return 2 + rng.IntN(63)
	case v < 40:
		return 12 + rng.IntN(30)
	case v < 60 || (v < 80 && rem < 3000):
		if rem > 3000 {
			if rng.IntN(2) == 0 {
				// approach the block end, so that several small records follow
				// close to the boundary
				return rem - hdr - 100 - rng.IntN(1400)
			}
			return 2 + rng.IntN(300)
		}
		// leave L in 0..20 bytes at the end of the current block (7/11/19-byte
		// header edge cases of nextChunk and of the writers' padding)
		n := rem - hdr - rng.IntN(21)
		if n < 0 {
			n += blockSize
		}
		return n
	case v < 65:
		// 32KiB - header +- {0..20}
		return blockSize - hdr - 20 + rng.IntN(41)
	case v < 70:
		// multi-block
		return (1+rng.IntN(3))*blockSize - 40 + rng.IntN(81)
	case v < 77:
		// just cross the block boundary: a tiny second chunk
		return rem - hdr + 1 + rng.IntN(20)
	case v < 97:
		return 100 + rng.IntN(4900)
	default:
		return rng.IntN(20000)
	}
}

type verifC18LogSpec struct {
	Format  int    `json:"format"`
	LogNum  uint64 `json:"log_num"`
	Sizes   []int  `json:"sizes"`
	Synced  []int  `json:"synced_record_indexes,omitempty"`
	Pieces  bool   `json:"legacy_next_write_pieces,omitempty"`
	Len     int    `json:"file_len"`
	SHA     string `json:"file_sha256"`
	Trailer bool   `json:"has_eof_trailer"`
}

type verifC18BuiltLog struct {
	spec   verifC18LogSpec
	data   []byte
	recs   [][]byte
	chunks []verifC18Chunk
	// recEnd[i] = offset just past the last chunk of record i
	recEnd []int64
}

// verifC18WriteLog writes a log of about target bytes (at most maxRecs records) with
// the given writer format. If sizes != nil it is replayed instead of drawn.
func verifC18WriteLog(rng *rand.Rand, format int, logNum uint64, target int, maxRecs int, sizes, prefix []int) (*verifC18BuiltLog, error) {
	f := &verifC18MemFile{}
	bl := &verifC18BuiltLog{spec: verifC18LogSpec{Format: format, LogNum: logNum}}
	logID := uint32(logNum)
	hdr := verifC18FmtHdr[format]
	var pos int64
	emit := func(i int) []byte {
		var n int
		if sizes != nil {
			n = sizes[i]
		} else if i < len(prefix) {
			n = prefix[i]
		} else {
			n = verifC18NextSize(rng, pos, hdr)
		}
		p := verifC18MkRecord(logID, i, n)
		bl.recs = append(bl.recs, p)
		bl.spec.Sizes = append(bl.spec.Sizes, n)
		return p
	}
	more := func(i int) bool {
		if sizes != nil {
			return i < len(sizes)
		}
		return i < maxRecs+len(prefix) && (pos < int64(target) || i < 2 || i < len(prefix))
	}
	if format == verifC18FmtLegacy {
		w := NewWriter(f)
		pieces := rng.IntN(2) == 0
		bl.spec.Pieces = pieces
		for i := 0; more(i); i++ {
			p := emit(i)
			if pieces {
				ww, err := w.Next()
				if err != nil {
					return nil, err
				}
				for q := p; len(q) > 0; {
					k := 1 + rng.IntN(len(q))
					if rng.IntN(3) == 0 {
						k = len(q)
					}
					if _, err := ww.Write(q[:k]); err != nil {
						return nil, err
					}
					q = q[k:]
				}
				if rng.IntN(4) == 0 {
					if err := w.Flush(); err != nil {
						return nil, err
					}
				}
				pos = w.Size()
			} else {
				off, err := w.WriteRecord(p)
				if err != nil {
					return nil, err
				}
				pos = off
			}
		}
		if err := w.Close(); err != nil {
			return nil, err
		}
	} else {
		w := NewLogWriter(f, base.DiskFileNum(logNum), LogWriterConfig{
			WriteWALSyncOffsets: func() bool { return format == verifC18FmtWALSync },
		})
		syncP := []int{0, 2, 5}[rng.IntN(3)]
		for i := 0; more(i); i++ {
			p := emit(i)
			if syncP > 0 && rng.IntN(syncP) == 0 {
				var wg sync.WaitGroup
				var serr error
				wg.Add(1)
				off, err := w.SyncRecord(p, &wg, &serr)
				if err != nil {
					return nil, err
				}
				wg.Wait()
				if serr != nil {
					return nil, serr
				}
				pos = off
				bl.spec.Synced = append(bl.spec.Synced, i)
			} else {
				off, err := w.WriteRecord(p)
				if err != nil {
					return nil, err
				}
				pos = off
			}
		}
		if err := w.Close(); err != nil {
			return nil, err
		}
		bl.spec.Trailer = true
	}
	bl.data = f.bytes()
	bl.spec.Len = len(bl.data)
	h := sha256.Sum256(bl.data)
	bl.spec.SHA = hex.EncodeToString(h[:8])
	var err error
	bl.chunks, err = verifC18ParseChunks(bl.data, logID)
	if err != nil {
		// the caller still reads the intact file back with the real reader
		return bl, err
	}
	// record end offsets
	for _, c := range bl.chunks {
		if c.Trailer {
			continue
		}
		if c.Pos == verifC18PosFull || c.Pos == verifC18PosLast {
			bl.recEnd = append(bl.recEnd, c.End())
		}
	}
	if len(bl.recEnd) != len(bl.recs) {
		return bl, fmt.Errorf("harness parser found %d records, wrote %d", len(bl.recEnd), len(bl.recs))
	}
	return bl, nil
}

// verifC18OffsetSet returns the enumerated damage offsets of a file of length n with
// the given chunks: every offset within +-win of every chunk start, payload
// start, chunk end and block boundary, plus each other offset with probability
// pct/100 (all offsets if all).
func verifC18OffsetSet(rng *rand.Rand, n int, chunks []verifC18Chunk, win, bwin int, pct float64, all bool) []int {
	if all {
		out := make([]int, n+1)
		for i := range out {
			out[i] = i
		}
		return out
	}
	mark := make([]bool, n+1)
	around := func(x int64, win int) {
		for o := int(x) - win; o <= int(x)+win; o++ {
			if o >= 0 && o <= n {
				mark[o] = true
			}
		}
	}
	for _, c := range chunks {
		around(c.Off, win)
		around(c.Off+int64(c.HdrLen), win)
		around(c.End(), win)
	}
	for b := 0; b <= n; b += blockSize {
		around(int64(b), bwin)
	}
	around(int64(n), bwin)
	var out []int
	for o := 0; o <= n; o++ {
		if mark[o] || rng.Float64()*100 < pct {
			out = append(out, o)
		}
	}
	return out
}

type verifC18ReadResult struct {
	k        int    // records returned complete
	term     string // eof | unexpected-eof | invalid-chunk | zeroed-chunk | other
	termErr  error
	midRec   bool   // the terminal error arrived inside a record
	badIdx   int    // -1 or index of first mismatching record
	badClass string // partial-record | merged-or-garbled-record | reordered-record | foreign-record | extra-record
	badLen   int
	strictIs bool // IsInvalidRecord(termErr) (== comparison) held
}

func verifC18TermName(err error) string {
	switch {
	case err == io.EOF:
		return "eof"
	case errors.Is(err, ErrUnexpectedEOF):
		return "unexpected-eof"
	case errors.Is(err, ErrInvalidChunk):
		return "invalid-chunk"
	case errors.Is(err, ErrZeroedChunk):
		return "zeroed-chunk"
	}
	return "other"
}

// verifC18Classify says what a mismatching record looks like.
func verifC18Classify(got []byte, idx int, want [][]byte, foreign [][]byte) string {
	for _, w := range foreign {
		if len(w) > 0 && bytes.Equal(got, w) {
			return "foreign-record"
		}
	}
	for j, w := range want {
		if j != idx && bytes.Equal(got, w) {
			return "reordered-record"
		}
	}
	if idx >= len(want) {
		return "extra-record"
	}
	w := want[idx]
	if len(got) < len(w) && bytes.Contains(w, got) {
		return "partial-record"
	}
	if len(got) >= 12 && len(w) >= 12 && !bytes.Equal(got[:4], w[:4]) {
		// identity header carries another log id
		return "foreign-record"
	}
	return "merged-or-garbled-record"
}

// verifC18ReadBack reads data with the real reader and compares with want on the fly.
func verifC18ReadBack(data []byte, logNum uint64, want [][]byte, foreign [][]byte, buf *[]byte) verifC18ReadResult {
	res := verifC18ReadResult{badIdx: -1}
	r := NewReader(bytes.NewReader(data), base.DiskFileNum(logNum))
	for {
		rr, err := r.Next()
		if err != nil {
			res.termErr = err
			break
		}
		b := (*buf)[:0]
		var rerr error
		for {
			if len(b) == cap(b) {
				nb := make([]byte, len(b), 2*cap(b)+4096)
				copy(nb, b)
				b = nb
			}
			m, err := rr.Read(b[len(b):cap(b)])
			b = b[:len(b)+m]
			if err == io.EOF {
				break
			}
			if err != nil {
				rerr = err
				break
			}
		}
		*buf = b
		if rerr != nil {
			res.termErr = rerr
			res.midRec = true
			break
		}
		if res.k >= len(want) || !bytes.Equal(b, want[res.k]) {
			res.badIdx = res.k
			res.badLen = len(b)
			res.badClass = verifC18Classify(b, res.k, want, foreign)
			res.termErr = errors.New("stopped at mismatching record")
			res.term = "mismatch"
			return res
		}
		res.k++
	}
	res.term = verifC18TermName(res.termErr)
	res.strictIs = res.termErr == io.EOF || IsInvalidRecord(res.termErr)
	return res
}

func verifC18IntactBelow(recEnd []int64, o int) int {
	return sort.Search(len(recEnd), func(i int) bool { return recEnd[i] > int64(o) })
}

func TestVerifC18(t *testing.T) {
	r := vcommon.NewReport("C18", "main")
	defer r.Finish(t)
	thorough := vcommon.Thorough()
	win, bwin := 24, 40
	pct := 1.0
	if thorough {
		win, pct = 40, 3.0
	}
	r.Rule(fmt.Sprintf("case = one seeded record-size plan (sizes biased to 0, 1, block-fill leaving 0..20 bytes, 32KiB-hdr+-20, 1..3 blocks+-40, just-crossing) "+
		"written by each of the 3 writers (legacy Writer via WriteRecord or Next/Write pieces/Flush; LogWriter recyclable; LogWriter WAL-sync with some records synced), "+
		"plus for the two LogWriter formats a recycled overlay (older longer log, log number smaller by exactly 1 or by more, same or the other LogWriter format; half of the same-format old logs share a prefix of the record sizes so chunk boundaries coincide). "+
		"Enumerated offsets O(file): every o with |o-b|<=%d for b in {chunk header start, payload start, chunk end}, every o with |o-b|<=%d for b in {every multiple of 32768, file length}, plus each other offset with p=%.0f%% "+
		"(every offset 0..len when len<=1500, thorough: when len<=16KiB). Damage reads: cut file[:o]; zero-tail file[:o]+zeros; overlay new[:o]+old[o:] for o in O(new); overlay-cut (new+old[len(new):])[:o] for o in O(old), o>len(new). "+
		"An evaluation = one read of one damaged (or intact) file; distinct non-trivial = (case, format, damage kind) of a log with >=2 records with at least one read that returned a proper non-empty prefix (overlay-cut: at least one read, all records must come back).", win, bwin, pct))
	r.Assume("the harness chunk parser (verifC18ParseChunks below) is used only to pick offsets and to compute the lower bound on the number of records that must survive; a parser/writer disagreement is reported as harness-parse-error, not as held")
	n := vcommon.Scale(20, 240)
	var buf []byte
	buf = make([]byte, 0, 1<<17)
	r.Cases(n, func(ci int, rng *rand.Rand) {
		// size class of this case
		var target, maxRecs int
		tiny := false
		switch v := rng.IntN(12); {
		case v >= 10:
			target, maxRecs, tiny = 150+rng.IntN(1100), 12, true
		case v < 3:
			target, maxRecs = 500+rng.IntN(12000), 24
		case v < 7:
			target, maxRecs = 20000+rng.IntN(50000), 30
		case v < 9:
			target, maxRecs = 60000+rng.IntN(38000), 36
		default:
			target, maxRecs = 100000+rng.IntN(120000), 40
		}
		baseNum := uint64(2 + rng.IntN(1000000))
		switch rng.IntN(12) {
		case 0:
			baseNum = 0xFFFFFFFF // trailer log number wraps to 0
		case 1:
			baseNum = 0xFFFFFFFE
		case 2:
			baseNum = 1 << 32 // low 32 bits are zero
		case 3:
			baseNum = 1
		}
		for format := 0; format < 3; format++ {
			r.BeginCase(fmt.Sprintf("%d/%s", ci, verifC18FmtNames[format]))
			var fixed []int
			if tiny {
				// small records only, so that the whole file stays <= 1500 bytes
				left := target
				for len(fixed) < 2 || (left > 40 && len(fixed) < maxRecs) {
					n := []int{0, 1, rng.IntN(40), rng.IntN(200), 12 + rng.IntN(20)}[rng.IntN(5)]
					fixed = append(fixed, n)
					left -= n + verifC18FmtHdr[format]
				}
			}
			bl, err := verifC18WriteLog(rng, format, baseNum, target, maxRecs, fixed, nil)
			if err != nil {
				// The harness parser rejects the file the real writer produced. Let
				// the real reader decide first: if the intact file does not read
				// back, that is the violation; otherwise the harness is at fault.
				if bl != nil && bl.data != nil {
					disableBitFlipCheckForTesting = true
					res := verifC18ReadBack(bl.data, baseNum, bl.recs, nil, &buf)
					r.Eval(1)
					if res.badIdx >= 0 || res.k != len(bl.recs) || res.term != "eof" {
						cls := "intact-log-not-clean"
						if res.badIdx >= 0 {
							cls = res.badClass
						} else if res.k != len(bl.recs) {
							cls = "intact-record-dropped"
						}
						r.Violate(cls, fmt.Sprintf("%s intact log (which the harness parser also rejects: %v) reads back %d of %d records and ends with %v",
							verifC18FmtNames[format], err, res.k, len(bl.recs), res.termErr),
							map[string]any{"case": ci, "damage": "intact", "log": bl.spec}, map[string]any{"format": verifC18FmtNames[format], "damage": "intact"})
						continue
					}
				}
				r.Violate("harness-parse-error", fmt.Sprintf("writing/parsing %s log: %v", verifC18FmtNames[format], err),
					map[string]any{"case": ci, "format": verifC18FmtNames[format]}, nil)
				continue
			}
			r.SetAdd("formats_seen", verifC18FmtNames[format])
			r.Count("logs_written", 1)
			r.Count("records_written", int64(len(bl.recs)))
			r.Count("chunks_written", int64(len(bl.chunks)))
			for _, c := range bl.chunks {
				if left := blockSize - int(c.End()%blockSize); left <= 20 && c.End()%blockSize != 0 {
					r.SetAdd("block_end_leftover_bytes_seen_"+verifC18FmtNames[format], fmt.Sprintf("%02d", left))
				} else if c.End()%blockSize == 0 {
					r.SetAdd("block_end_leftover_bytes_seen_"+verifC18FmtNames[format], "00")
				}
			}
			// every offset: files <= 1500 bytes always, <= 16 KiB in the thorough tier
			all := len(bl.data) <= 1500 || (thorough && len(bl.data) <= 16<<10)
			offs := verifC18OffsetSet(rng, len(bl.data), bl.chunks, win, bwin, pct, all)
			if all {
				r.Count("logs_with_every_offset_enumerated", 1)
			}
			if r.WantSample() && format == 2 {
				r.Sample(map[string]any{"case": ci, "log": bl.spec, "offsets_enumerated": len(offs), "first_offsets": offs[:min(12, len(offs))]})
			}

			check := func(kind string, data []byte, o int, logNum uint64, want [][]byte, recEnd []int64, foreign [][]byte, intact bool, extra map[string]any) (proper bool) {
				// The reader's bit-flip diagnostic on a checksum mismatch costs
				// O(8*len^2) CRC work per chunk (seconds for a 32 KiB chunk); it only
				// decorates the error. It is left on for small files and switched off
				// (the package's own test knob) for the rest.
				disableBitFlipCheckForTesting = len(data) > 1500
				if !disableBitFlipCheckForTesting {
					r.Count("reads_with_bitflip_diagnostic_on", 1)
				}
				res := verifC18ReadBack(data, logNum, want, foreign, &buf)
				r.Eval(1)
				r.Count("reads_"+kind+"_"+verifC18FmtNames[format], 1)
				r.Count("records_read", int64(res.k))
				r.SetAdd("terminal_"+kind+"_"+verifC18FmtNames[format], res.term)
				rep := func() map[string]any {
					m := map[string]any{"case": ci, "damage": kind, "offset": o, "log": bl.spec, "returned_records": res.k,
						"terminal_error": fmt.Sprint(res.termErr), "terminal_inside_record": res.midRec}
					for k, v := range extra {
						m[k] = v
					}
					return m
				}
				match := map[string]any{"format": verifC18FmtNames[format], "damage": kind}
				if res.badIdx >= 0 {
					r.Violate(res.badClass, fmt.Sprintf("%s/%s at offset %d: record #%d returned by the reader (%d bytes) is not record #%d written (%s)",
						verifC18FmtNames[format], kind, o, res.badIdx, res.badLen, res.badIdx, res.badClass), rep(), match)
					return false
				}
				lo := verifC18IntactBelow(recEnd, o)
				if intact {
					lo = len(want)
				}
				if res.k < lo {
					r.Violate("intact-record-dropped", fmt.Sprintf("%s/%s at offset %d: reader returned %d records, but %d records lie completely inside the undamaged prefix (terminal %v)",
						verifC18FmtNames[format], kind, o, res.k, lo, res.termErr), rep(), match)
				}
				if res.term == "other" {
					r.Violate("bad-terminal-error", fmt.Sprintf("%s/%s at offset %d: reader ended with %v, neither io.EOF nor an end-of-log error", verifC18FmtNames[format], kind, o, res.termErr), rep(), match)
				} else if intact && res.term != "eof" {
					r.Violate("intact-log-not-clean", fmt.Sprintf("%s intact log ended with %v after %d/%d records", verifC18FmtNames[format], res.termErr, res.k, len(want)), rep(), match)
				} else if format == verifC18FmtWALSync && (res.term == "invalid-chunk" || res.term == "zeroed-chunk") {
					r.Violate("walsync-false-corruption", fmt.Sprintf("walsync/%s at offset %d: reader ended with %v, which recovery treats as confirmed corruption, on a file that was only cut/zero-tailed/recycled",
						kind, o, res.termErr), rep(), match)
				}
				if !res.strictIs {
					r.Count("terminal_errors_not_matched_by_IsInvalidRecord_equality", 1)
				}
				return res.k > 0 && res.k < len(want)
			}

			// intact
			check("intact", bl.data, len(bl.data), baseNum, bl.recs, bl.recEnd, nil, true, nil)
			// cut and zero-tail
			anyProperCut, anyProperZero := false, false
			zbuf := make([]byte, len(bl.data))
			for _, o := range offs {
				if check("cut", bl.data[:o], o, baseNum, bl.recs, bl.recEnd, nil, o == len(bl.data), nil) {
					anyProperCut = true
				}
				if o < len(bl.data) {
					copy(zbuf, bl.data[:o])
					clear(zbuf[o:])
					if check("zerotail", zbuf, o, baseNum, bl.recs, bl.recEnd, nil, false, nil) {
						anyProperZero = true
					}
				}
			}
			if len(bl.recs) >= 2 {
				if anyProperCut {
					r.Distinct(ci, format, "cut")
				}
				if anyProperZero {
					r.Distinct(ci, format, "zerotail")
				}
			}
			r.Count("offsets_enumerated", int64(len(offs)))

			if format == verifC18FmtLegacy {
				continue
			}
			// recycled overlay: an older, longer log with a smaller log number
			oldFormat := format
			if rng.IntN(4) == 0 {
				oldFormat = verifC18FmtRecyclable + verifC18FmtWALSync - format
			}
			diff := uint64(1)
			if rng.IntN(2) == 0 {
				diff = uint64(2 + rng.IntN(50))
			}
			if baseNum < diff {
				diff = baseNum
			}
			if diff == 0 {
				continue
			}
			oldNum := baseNum - diff
			// Half of the old logs of the same format start with the same
			// record sizes as the new log (a similar workload), so that old and
			// new chunk boundaries coincide and a splice at such a boundary puts
			// a well-formed old chunk right behind the new ones.
			var prefix []int
			if oldFormat == format && rng.IntN(2) == 0 {
				prefix = bl.spec.Sizes[:1+rng.IntN(len(bl.spec.Sizes))]
				r.Count("overlays_with_coinciding_chunk_boundaries", 1)
			}
			old, err := verifC18WriteLog(rng, oldFormat, oldNum, len(bl.data)+200+rng.IntN(40000), 60, nil, prefix)
			if err != nil {
				r.Violate("harness-parse-error", fmt.Sprintf("writing/parsing old %s log: %v", verifC18FmtNames[oldFormat], err), map[string]any{"case": ci}, nil)
				continue
			}
			if len(old.data) <= len(bl.data) {
				r.Count("overlay_skipped_old_not_longer", 1)
				continue
			}
			r.SetAdd("overlay_lognum_diff", fmt.Sprintf("%d", min(diff, 2)))
			r.SetAdd("overlay_formats", verifC18FmtNames[oldFormat]+"->"+verifC18FmtNames[format])
			extra := map[string]any{"old_log": old.spec}
			obuf := make([]byte, len(old.data))
			anyProper := false
			for _, o := range offs {
				copy(obuf, bl.data[:o])
				copy(obuf[o:], old.data[o:])
				if check("overlay", obuf, o, baseNum, bl.recs, bl.recEnd, old.recs, o == len(bl.data), extra) {
					anyProper = true
				}
			}
			if anyProper && len(bl.recs) >= 2 {
				r.Distinct(ci, format, "overlay")
			}
			// the complete new log followed by the old tail, cut
			copy(obuf, bl.data)
			copy(obuf[len(bl.data):], old.data[len(bl.data):])
			ooffs := verifC18OffsetSet(rng, len(old.data), old.chunks, win, bwin, pct, false)
			for len(ooffs) > 0 && ooffs[0] <= len(bl.data) {
				ooffs = ooffs[1:]
			}
			stride := (len(ooffs) + 299) / 300
			nn := 0
			for j, o := range ooffs {
				if j%stride != 0 && j != len(ooffs)-1 {
					continue
				}
				check("overlaycut", obuf[:o], o, baseNum, bl.recs, bl.recEnd, old.recs, true, extra)
				nn++
			}
			if nn > 0 && len(bl.recs) >= 2 {
				r.Distinct(ci, format, "overlaycut")
			}
		}
	})
}

// Independent parser of the record wire format (record/go package
// comment): 32 KiB blocks, chunks never cross a block, header = CRC(4) Size(2)
// Type(1) [LogNum(4) [SyncOffset(8)]]. It is only applied to files the harness
// itself just wrote with the real writers.


const (
	verifC18PosFull = 1 + iota
	verifC18PosFirst
	verifC18PosMiddle
	verifC18PosLast
)

type verifC18Chunk struct {
	Off     int64 // offset of the header
	HdrLen  int
	Len     int // payload length
	Type    byte
	Pos     int // verifC18PosFull..posLast
	Format  int // verifC18FmtLegacy..fmtWALSync
	LogNum  uint32
	Synced  uint64
	Trailer bool // EOF trailer (recyclable header, log number + 1, no payload)
}

func (c verifC18Chunk) End() int64   { return c.Off + int64(c.HdrLen) + int64(c.Len) }
func (c verifC18Chunk) Block() int64 { return c.Off / blockSize }

func verifC18ParseChunks(b []byte, logNum uint32) ([]verifC18Chunk, error) {
	var out []verifC18Chunk
	n := int64(len(b))
	pos := int64(0)
	for pos < n {
		blockEnd := (pos/blockSize + 1) * blockSize
		if blockEnd > n {
			blockEnd = n
		}
		if pos+7 > blockEnd {
			// padding shorter than a legacy header
			for _, x := range b[pos:blockEnd] {
				if x != 0 {
					return nil, fmt.Errorf("non-zero padding at %d", pos)
				}
			}
			pos = blockEnd
			continue
		}
		ty := b[pos+6]
		if ty == 0 {
			for _, x := range b[pos:blockEnd] {
				if x != 0 {
					return nil, fmt.Errorf("non-zero padding at %d", pos)
				}
			}
			pos = blockEnd
			continue
		}
		if ty > 12 {
			return nil, fmt.Errorf("bad chunk type %d at %d", ty, pos)
		}
		c := verifC18Chunk{Off: pos, Type: ty, Len: int(binary.LittleEndian.Uint16(b[pos+4:]))}
		c.Format = int(ty-1) / 4
		c.Pos = int(ty-1)%4 + 1
		c.HdrLen = []int{7, 11, 19}[c.Format]
		if pos+int64(c.HdrLen) > blockEnd {
			return nil, fmt.Errorf("header at %d crosses block end", pos)
		}
		if c.Format >= verifC18FmtRecyclable {
			c.LogNum = binary.LittleEndian.Uint32(b[pos+7:])
		}
		if c.Format == verifC18FmtWALSync {
			c.Synced = binary.LittleEndian.Uint64(b[pos+11:])
		}
		if c.Format == verifC18FmtRecyclable && c.LogNum == logNum+1 && c.Len == 0 && binary.LittleEndian.Uint32(b[pos:]) == 0 {
			c.Trailer = true
			out = append(out, c)
			if c.End() != n {
				return nil, fmt.Errorf("bytes after EOF trailer at %d (len %d)", pos, n)
			}
			return out, nil
		}
		if c.Format >= verifC18FmtRecyclable && c.LogNum != logNum {
			return nil, fmt.Errorf("chunk at %d has log number %d, want %d", pos, c.LogNum, logNum)
		}
		if c.End() > blockEnd {
			return nil, fmt.Errorf("chunk at %d crosses block end", pos)
		}
		out = append(out, c)
		pos = c.End()
	}
	return out, nil
}
