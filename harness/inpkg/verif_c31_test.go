// C31 (white box): a flushable batch iterates identically to a memtable that
// applied the same batch at the same sequence number; newFlushableBatch and
// memTable.apply return an error (never panic) on malformed reprs.
//
// Overlaid into package pebble as /repo/verif_c31_test.go by the harness.
package pebble

import (
	"bytes"
	"encoding/binary"
	"encoding/hex"
	"fmt"
	"math/rand/v2"
	"regexp"
	"runtime"
	"sort"
	"strings"
	"testing"

	"github.com/cockroachdb/pebble/batchrepr"
	"github.com/cockroachdb/pebble/internal/base"
	"github.com/cockroachdb/pebble/internal/keyspan"
	"github.com/cockroachdb/pebble/internal/manual"
	"github.com/cockroachdb/pebble/internal/testkeys"
	"github.com/cockroachdb/pebble/internal/verif/vcommon"
)

type verifC31Op struct {
	Kind   string `json:"kind"`
	K      string `json:"k"`
	V      string `json:"v,omitempty"`
	Suffix string `json:"suffix,omitempty"`
	Size   uint32 `json:"size,omitempty"`
}

type verifC31Ent struct {
	Key     string
	Trailer base.InternalKeyTrailer
	Val     string
}

func (e verifC31Ent) String() string {
	return fmt.Sprintf("%q#%d,%s=%q", e.Key, e.Trailer.SeqNum(), e.Trailer.Kind(), verifC31Clip(e.Val))
}

func verifC31Clip(s string) string {
	if len(s) > 32 {
		return s[:32] + "..."
	}
	return s
}

type verifC31Span struct {
	Start, End string
	Keys       []verifC31SpanKey
}
type verifC31SpanKey struct {
	Trailer       base.InternalKeyTrailer
	Suffix, Value string
}

func (s verifC31Span) String() string {
	out := fmt.Sprintf("[%q,%q):", s.Start, s.End)
	for _, k := range s.Keys {
		out += fmt.Sprintf("{#%d,%s %q=%q}", k.Trailer.SeqNum(), k.Trailer.Kind(), k.Suffix, verifC31Clip(k.Value))
	}
	return out
}

// verifC31Keys generates keys for one comparer.
type verifC31Keys struct {
	cmp   *Comparer
	tk    bool // testkeys encoding
	space int
}

func (g verifC31Keys) prefix(rng *rand.Rand) string {
	if g.tk {
		n := 1 + rng.IntN(2)
		b := make([]byte, n)
		for i := range b {
			b[i] = 'a' + byte(rng.IntN(g.space))
		}
		return string(b)
	}
	n := rng.IntN(4) // may be empty
	b := make([]byte, n)
	for i := range b {
		b[i] = "\x00ab\xff"[rng.IntN(4)]
	}
	return string(b)
}

func (g verifC31Keys) suffix(rng *rand.Rand) string {
	if !g.tk {
		return ""
	}
	s := fmt.Sprintf("@%d", rng.IntN(6))
	if rng.IntN(6) == 0 {
		s += "_synthetic"
	}
	return s
}

func (g verifC31Keys) point(rng *rand.Rand) string {
	p := g.prefix(rng)
	if g.tk && rng.IntN(4) != 0 {
		p += g.suffix(rng)
	}
	return p
}

func (g verifC31Keys) span(rng *rand.Rand) (string, string) {
	for {
		a, b := g.prefix(rng), g.prefix(rng)
		switch c := g.cmp.Compare([]byte(a), []byte(b)); {
		case c < 0:
			return a, b
		case c > 0:
			return b, a
		}
	}
}

func verifC31Val(rng *rand.Rand) string {
	n := []int{0, 1, 3, 10, 127, 128, 129, 300}[rng.IntN(8)]
	b := make([]byte, n)
	for i := range b {
		b[i] = byte(rng.Uint32())
	}
	return string(b)
}

func verifC31GenOps(rng *rand.Rand, g verifC31Keys, n int) []verifC31Op {
	kinds := []string{"set", "set", "set", "merge", "del", "singledel", "delsized", "logdata", "delrange", "rkset", "rkunset", "rkdel"}
	ops := make([]verifC31Op, 0, n)
	for i := 0; i < n; i++ {
		o := verifC31Op{Kind: kinds[rng.IntN(len(kinds))]}
		switch o.Kind {
		case "set", "merge":
			o.K, o.V = g.point(rng), verifC31Val(rng)
		case "del", "singledel":
			o.K = g.point(rng)
		case "delsized":
			o.K, o.Size = g.point(rng), rng.Uint32()>>uint(rng.IntN(32))
		case "logdata":
			o.K = verifC31Val(rng)
		case "delrange", "rkdel":
			o.K, o.V = g.span(rng)
		case "rkset":
			o.K, o.V = g.span(rng)
			o.Suffix = g.suffix(rng)
			o.Size = uint32(rng.IntN(40))
		case "rkunset":
			o.K, o.V = g.span(rng)
			o.Suffix = g.suffix(rng)
		}
		ops = append(ops, o)
	}
	return ops
}

func verifC31RKValue(o verifC31Op) []byte {
	return bytes.Repeat([]byte{byte(o.Size) | 1}, int(o.Size))
}

func verifC31Apply(b *Batch, o verifC31Op) error {
	switch o.Kind {
	case "set":
		return b.Set([]byte(o.K), []byte(o.V), nil)
	case "merge":
		return b.Merge([]byte(o.K), []byte(o.V), nil)
	case "del":
		return b.Delete([]byte(o.K), nil)
	case "singledel":
		return b.SingleDelete([]byte(o.K), nil)
	case "delsized":
		return b.DeleteSized([]byte(o.K), o.Size, nil)
	case "logdata":
		return b.LogData([]byte(o.K), nil)
	case "delrange":
		return b.DeleteRange([]byte(o.K), []byte(o.V), nil)
	case "rkset":
		return b.RangeKeySet([]byte(o.K), []byte(o.V), []byte(o.Suffix), verifC31RKValue(o), nil)
	case "rkunset":
		return b.RangeKeyUnset([]byte(o.K), []byte(o.V), []byte(o.Suffix), nil)
	case "rkdel":
		return b.RangeKeyDelete([]byte(o.K), []byte(o.V), nil)
	}
	panic(o.Kind)
}

// verifC31Model is the expected point-entry list: op i (LogData not counted)
// gets seqnum base+i; order = user key ascending, seqnum descending.
func verifC31Model(ops []verifC31Op, cmp Compare, seq base.SeqNum) (points []verifC31Ent, nRangeDel, nRangeKey int) {
	idx := base.SeqNum(0)
	for _, o := range ops {
		var kind InternalKeyKind
		val := o.V
		switch o.Kind {
		case "logdata":
			continue
		case "set":
			kind = InternalKeyKindSet
		case "merge":
			kind = InternalKeyKindMerge
		case "del":
			kind, val = InternalKeyKindDelete, ""
		case "singledel":
			kind, val = InternalKeyKindSingleDelete, ""
		case "delsized":
			kind = InternalKeyKindDeleteSized
			val = string(binary.AppendUvarint(nil, uint64(o.Size)+uint64(len(o.K))))
		case "delrange":
			nRangeDel++
			idx++
			continue
		default:
			nRangeKey++
			idx++
			continue
		}
		points = append(points, verifC31Ent{o.K, base.MakeTrailer(seq+idx, kind), val})
		idx++
	}
	sort.SliceStable(points, func(i, j int) bool {
		if c := cmp([]byte(points[i].Key), []byte(points[j].Key)); c != 0 {
			return c < 0
		}
		return points[i].Trailer > points[j].Trailer
	})
	return points, nRangeDel, nRangeKey
}

func verifC31Ent1(kv *base.InternalKV) verifC31Ent {
	return verifC31Ent{string(kv.K.UserKey), kv.K.Trailer, string(kv.InPlaceValue())}
}

func verifC31Forward(it internalIterator) (out []verifC31Ent) {
	for kv := it.First(); kv != nil; kv = it.Next() {
		out = append(out, verifC31Ent1(kv))
	}
	return out
}

func verifC31Backward(it internalIterator) (out []verifC31Ent) {
	for kv := it.Last(); kv != nil; kv = it.Prev() {
		out = append(out, verifC31Ent1(kv))
	}
	return out
}

func verifC31DiffEnts(a, b []verifC31Ent) string {
	if len(a) != len(b) {
		return fmt.Sprintf("%d entries vs %d", len(a), len(b))
	}
	for i := range a {
		if a[i] != b[i] {
			return fmt.Sprintf("entry %d: %s vs %s", i, a[i], b[i])
		}
	}
	return ""
}

func verifC31Spans(it keyspan.FragmentIterator, backward bool) (out []verifC31Span, err error) {
	if it == nil {
		return nil, nil
	}
	defer it.Close()
	var s *keyspan.Span
	if backward {
		s, err = it.Last()
	} else {
		s, err = it.First()
	}
	for s != nil && err == nil {
		vs := verifC31Span{Start: string(s.Start), End: string(s.End)}
		for _, k := range s.Keys {
			vs.Keys = append(vs.Keys, verifC31SpanKey{k.Trailer, string(k.Suffix), string(k.Value)})
		}
		out = append(out, vs)
		if backward {
			s, err = it.Prev()
		} else {
			s, err = it.Next()
		}
	}
	return out, err
}

func verifC31DiffSpans(a, b []verifC31Span) string {
	if len(a) != len(b) {
		return fmt.Sprintf("%d spans vs %d", len(a), len(b))
	}
	for i := range a {
		if a[i].Start != b[i].Start || a[i].End != b[i].End || len(a[i].Keys) != len(b[i].Keys) {
			return fmt.Sprintf("span %d: %s vs %s", i, a[i], b[i])
		}
		for j := range a[i].Keys {
			if a[i].Keys[j] != b[i].Keys[j] {
				return fmt.Sprintf("span %d key %d: %s vs %s", i, j, a[i], b[i])
			}
		}
	}
	return ""
}

func verifC31NewMem(cmp *Comparer, b *Batch) *memTable {
	size := int(b.memTableSize) + int(memTableEmptySize) + 4096
	return newMemTable(memTableOptions{Options: &Options{Comparer: cmp}, size: size})
}

func verifC31FreeMem(m *memTable) {
	manual.Free(manual.MemTable, m.arenaBuf)
	m.arenaBuf = manual.Buf{}
}

func TestVerifC31Flushable(t *testing.T) {
	r := vcommon.NewReport("C31", "flushable")
	defer r.Finish(t)
	r.Rule("differential case = op sequence (12 op kinds incl. LogData, overlapping range dels and range keys, duplicate user keys, empty keys) over testkeys or bytewise keys, " +
		"a sequence number, and which of the two production paths assigns it (before newFlushableBatch as in WAL replay / setSeqNum afterwards as in commit); " +
		"distinct by (comparer, path, #points, #rangedels, #rangekeys, repr hash); non-trivial if the batch holds at least 2 entries. " +
		"malformed case = mutated valid repr through newFlushableBatch and memTable.apply; distinct by content hash")
	nDiff := vcommon.Scale(210, 5000)
	nMal := vcommon.Scale(45, 1000)
	seen := map[string]int{}
	r.Cases(nDiff+nMal, func(i int, rng *rand.Rand) {
		defer func() {
			// a panic escaping a case (pebble code on a VALID batch, or a harness bug)
			// must not silently drop the remaining cases
			if rec := recover(); rec != nil {
				buf := make([]byte, 8<<10)
				buf = buf[:runtime.Stack(buf, false)]
				r.Violate("case-panic", fmt.Sprintf("case %d panicked: %.300s", i, fmt.Sprint(rec)), map[string]any{"stack": string(buf)}, map[string]any{"what": "case-panic"})
			}
		}()
		if i < nDiff {
			verifC31Differential(r, i, rng)
		} else {
			verifC31Malformed(r, i, rng, seen)
		}
	})
}

func verifC31Differential(r *vcommon.Report, i int, rng *rand.Rand) {
	g := verifC31Keys{cmp: testkeys.Comparer, tk: true, space: 2 + rng.IntN(4)}
	cname := "testkeys"
	if rng.IntN(3) == 0 {
		g = verifC31Keys{cmp: DefaultComparer}
		cname = "bytewise"
	}
	var n int
	switch x := rng.IntN(100); {
	case x < 3:
		n = 0
	case x < 70:
		n = 1 + rng.IntN(25)
	case x < 95:
		n = 26 + rng.IntN(200)
	case x < 98:
		n = 300 + rng.IntN(700)
	default:
		n = 1000 + rng.IntN(4001) // up to 5000
	}
	ops := verifC31GenOps(rng, g, n)
	b := newBatch(nil)
	for _, o := range ops {
		if err := verifC31Apply(b, o); err != nil {
			r.Violate("op-error", err.Error(), ops, nil)
			return
		}
	}
	_ = b.Repr() // materialise the header of an empty batch
	seq := base.SeqNum(1 + rng.Uint64N(1<<40))
	replayPath := rng.IntN(2) == 0
	path := "commit(setSeqNum after)"
	if replayPath {
		path = "replay(seqnum in header)"
	}
	replay := func() any {
		o := ops
		if len(o) > 80 {
			o = o[:80]
		}
		return map[string]any{"comparer": cname, "path": path, "seqnum": uint64(seq), "nops": len(ops), "ops_first80": o}
	}
	fail := func(what, detail string) {
		r.Violate("flushable-mismatch", what+": "+detail, replay(), map[string]any{"what": what})
	}
	r.Eval(1)
	r.SetAdd("comparers", cname)
	r.SetAdd("seqnum_paths", path)
	r.Max("max_ops_in_batch", int64(n))

	// memtable
	m := verifC31NewMem(g.cmp, b)
	defer verifC31FreeMem(m)
	b.setSeqNum(seq)
	if err := m.apply(b, seq); err != nil {
		fail("memTable.apply", "error on a valid batch: "+err.Error())
		return
	}
	// flushable batch
	if !replayPath {
		b.setSeqNum(0)
	}
	fb, err := newFlushableBatch(b, g.cmp)
	if err != nil {
		fail("newFlushableBatch", "error on a valid batch: "+err.Error())
		return
	}
	if !replayPath {
		fb.setSeqNum(seq)
	}

	want, nrd, nrk := verifC31Model(ops, g.cmp.Compare, seq)
	// points: forward / backward / flush iterator, vs memtable and vs the model
	ff := verifC31Forward(fb.newIter(nil))
	mf := verifC31Forward(m.newIter(nil))
	if d := verifC31DiffEnts(ff, mf); d != "" {
		fail("points forward (flushable vs memtable)", d)
	}
	if d := verifC31DiffEnts(ff, want); d != "" {
		fail("points forward (flushable vs model)", d)
	}
	fbw := verifC31Backward(fb.newIter(nil))
	mbw := verifC31Backward(m.newIter(nil))
	if d := verifC31DiffEnts(fbw, mbw); d != "" {
		fail("points backward (flushable vs memtable)", d)
	}
	if len(fbw) == len(want) {
		for k := range fbw {
			if fbw[k] != want[len(want)-1-k] {
				fail("points backward (flushable vs model)", fmt.Sprintf("entry %d: %s vs %s", k, fbw[k], want[len(want)-1-k]))
				break
			}
		}
	} else {
		fail("points backward (flushable vs model)", fmt.Sprintf("%d entries vs %d", len(fbw), len(want)))
	}
	if d := verifC31DiffEnts(verifC31Forward(fb.newFlushIter(nil)), verifC31Forward(m.newFlushIter(nil))); d != "" {
		fail("flush iterators", d)
	}
	// seeks, with and without bounds
	for k := 0; k < 6; k++ {
		var o *IterOptions
		if k >= 3 {
			lo, hi := g.span(rng)
			o = &IterOptions{LowerBound: []byte(lo), UpperBound: []byte(hi)}
		}
		fi, mi := fb.newIter(o), m.newIter(o)
		key := []byte(g.point(rng))
		if o != nil {
			// seek keys must respect the bounds
			if g.cmp.Compare(key, o.LowerBound) < 0 {
				key = o.LowerBound
			}
			if g.cmp.Compare(key, o.UpperBound) > 0 {
				key = o.UpperBound
			}
		}
		var a, c []verifC31Ent
		collect := func(it internalIterator, ge bool) (out []verifC31Ent) {
			var kv *base.InternalKV
			if ge {
				kv = it.SeekGE(key, base.SeekGEFlagsNone)
			} else {
				kv = it.SeekLT(key, base.SeekLTFlagsNone)
			}
			for steps := 0; kv != nil && steps < 4; steps++ {
				out = append(out, verifC31Ent1(kv))
				if ge {
					kv = it.Next()
				} else {
					kv = it.Prev()
				}
			}
			return out
		}
		ge := k%2 == 0
		a, c = collect(fi, ge), collect(mi, ge)
		if d := verifC31DiffEnts(a, c); d != "" {
			fail(fmt.Sprintf("seek(ge=%v key=%q bounds=%v)", ge, key, o != nil), d)
		}
		_ = fi.Close()
		_ = mi.Close()
	}
	// range deletions and range keys, both directions
	for _, backward := range []bool{false, true} {
		fs, err1 := verifC31Spans(fb.newRangeDelIter(nil), backward)
		ms, err2 := verifC31Spans(m.newRangeDelIter(nil), backward)
		if err1 != nil || err2 != nil {
			fail("range-del iteration", fmt.Sprintf("errors %v / %v", err1, err2))
		} else if d := verifC31DiffSpans(fs, ms); d != "" {
			fail(fmt.Sprintf("range dels (backward=%v)", backward), d)
		}
		if (nrd == 0) != (len(fs) == 0) {
			fail("range dels vs model", fmt.Sprintf("%d DeleteRange ops but %d fragments", nrd, len(fs)))
		}
		fs, err1 = verifC31Spans(fb.newRangeKeyIter(nil), backward)
		ms, err2 = verifC31Spans(m.newRangeKeyIter(nil), backward)
		if err1 != nil || err2 != nil {
			fail("range-key iteration", fmt.Sprintf("errors %v / %v", err1, err2))
		} else if d := verifC31DiffSpans(fs, ms); d != "" {
			fail(fmt.Sprintf("range keys (backward=%v)", backward), d)
		}
		if (nrk == 0) != (len(fs) == 0) {
			fail("range keys vs model", fmt.Sprintf("%d range-key ops but %d fragments", nrk, len(fs)))
		}
		if !backward {
			r.Count("rangedel_fragments_compared", int64(len(ms)))
		}
	}
	if fb.containsRangeKeys() != m.containsRangeKeys() {
		fail("containsRangeKeys", fmt.Sprintf("%v vs %v", fb.containsRangeKeys(), m.containsRangeKeys()))
	}
	r.Count("point_entries_compared", int64(len(want)))
	r.Count("differential_batches", 1)
	if nrd > 0 {
		r.Count("batches_with_rangedels", 1)
	}
	if nrk > 0 {
		r.Count("batches_with_rangekeys", 1)
	}
	if n >= 2 {
		r.Distinct("diff", cname, path, len(want), nrd, nrk, hex.EncodeToString(b.data[batchrepr.HeaderLen:min(len(b.data), 200)]), len(b.data))
	}
	if n >= 2 && n <= 5 && r.WantSample() {
		r.Sample(map[string]any{"type": "flushable-vs-memtable", "comparer": cname, "path": path, "seqnum": uint64(seq), "ops": ops, "points": len(want)})
	}
}

// verifC31Analyse is the harness's own bounds-checked structural reading of a
// repr: spansOK=false iff it decodes completely and some range op has
// start >= end (bytewise); rkBad iff some RangeKeySet/Unset value is not a
// well-formed (end, tuples...) list.
func verifC31Analyse(data []byte) (spansOK, rkBad bool) {
	if len(data) < batchrepr.HeaderLen {
		return true, false
	}
	type ent struct {
		kind InternalKeyKind
		k, v []byte
	}
	var es []ent
	for rd := batchrepr.Read(data); ; {
		kind, k, v, ok, err := rd.Next()
		if err != nil {
			return true, false
		}
		if !ok {
			break
		}
		es = append(es, ent{kind, k, v})
	}
	spansOK = true
	for _, e := range es {
		switch e.kind {
		case InternalKeyKindRangeDelete, InternalKeyKindRangeKeyDelete:
			if bytes.Compare(e.k, e.v) >= 0 {
				spansOK = false
			}
		case InternalKeyKindRangeKeySet, InternalKeyKindRangeKeyUnset:
			v := e.v
			str := func() ([]byte, bool) {
				l, n := binary.Uvarint(v)
				if n <= 0 || l > uint64(len(v)-n) {
					return nil, false
				}
				out := v[n : n+int(l)]
				v = v[n+int(l):]
				return out, true
			}
			end, ok := str()
			if !ok || len(v) == 0 {
				rkBad = true
				continue
			}
			for len(v) > 0 && ok {
				if _, ok = str(); ok && e.kind == InternalKeyKindRangeKeySet {
					_, ok = str()
				}
			}
			if !ok {
				rkBad = true
			} else if bytes.Compare(e.k, end) >= 0 {
				spansOK = false
			}
		}
	}
	return spansOK, rkBad
}

var verifC31Digits = regexp.MustCompile(`0x[0-9a-fA-F]+|[0-9]+`)

func verifC31Guard(f func()) (pmsg string, panicked bool, stack string) {
	defer func() {
		if rec := recover(); rec != nil {
			var s string
			if e, ok := rec.(error); ok {
				s = e.Error()
			} else {
				s = fmt.Sprint(rec)
			}
			s = verifC31Digits.ReplaceAllString(s, "N")
			if len(s) > 70 {
				s = s[:70]
			}
			buf := make([]byte, 6<<10)
			pmsg, panicked, stack = s, true, string(buf[:runtime.Stack(buf, false)])
		}
	}()
	f()
	return "", false, ""
}

var verifC31Hostile = [][]byte{{0x00}, {0x01}, {0x7f}, {0x80}, {0x80, 0x00}, {0x81, 0x00}, {0xff}, {0xff, 0x7f},
	{0xff, 0xff, 0xff, 0xff, 0x0f}, {0xff, 0xff, 0xff, 0xff, 0xff}}

func verifC31Malformed(r *vcommon.Report, i int, rng *rand.Rand, seen map[string]int) {
	g := verifC31Keys{cmp: testkeys.Comparer, tk: true, space: 3}
	ops := verifC31GenOps(rng, g, 1+rng.IntN(8))
	if rng.IntN(3) == 0 {
		// > 128 bytes after most offsets: DecodeStr's unsafe varint path
		for k := 0; k < 3; k++ {
			ops = append(ops, verifC31Op{Kind: "set", K: "pad", V: string(make([]byte, 100))})
		}
	}
	b := newBatch(nil)
	for _, o := range ops {
		_ = verifC31Apply(b, o)
	}
	repr := append([]byte(nil), b.Repr()...)
	// structural offsets
	var kindOffs, lenOffs, rkInner []int
	for off := batchrepr.HeaderLen; off < len(repr); {
		kindOffs = append(kindOffs, off)
		kind := InternalKeyKind(repr[off])
		off++
		lenOffs = append(lenOffs, off)
		l, m := binary.Uvarint(repr[off:])
		off += m + int(l)
		switch kind {
		case InternalKeyKindDelete, InternalKeyKindSingleDelete, InternalKeyKindLogData:
		default:
			lenOffs = append(lenOffs, off)
			l, m := binary.Uvarint(repr[off:])
			if kind == InternalKeyKindRangeKeySet || kind == InternalKeyKindRangeKeyUnset {
				el, m2 := binary.Uvarint(repr[off+m:])
				rkInner = append(rkInner, off+m, off+m+m2+int(el))
			}
			off += m + int(l)
		}
	}
	var inputs [][]byte
	label := ""
	mut := func(off int, nb byte) {
		mm := append([]byte(nil), repr...)
		mm[off] = nb
		inputs = append(inputs, mm)
	}
	switch x := rng.IntN(100); {
	case x < 25 && len(repr) <= 120:
		label = "truncation-every-offset"
		for t := 0; t <= len(repr); t++ {
			inputs = append(inputs, append([]byte(nil), repr[:t]...))
		}
	case x < 40:
		label = "count-field"
		n := uint32(len(kindOffs))
		for _, c := range []uint32{0, n - 1, n + 1, n + 1000, 1 << 16, 0xffffffff, 1<<31 + rng.Uint32()>>1} {
			mm := append([]byte(nil), repr...)
			binary.LittleEndian.PutUint32(mm[8:], c)
			inputs = append(inputs, mm)
		}
	case x < 60:
		label = "varint-length"
		for _, off := range lenOffs {
			_, m := binary.Uvarint(repr[off:])
			for _, hv := range verifC31Hostile {
				mm := append(append(append([]byte(nil), repr[:off]...), hv...), repr[off+m:]...)
				inputs = append(inputs, mm)
			}
			if len(inputs) > 60 {
				break
			}
		}
	case x < 75:
		label = "kind-byte"
		off := kindOffs[rng.IntN(len(kindOffs))]
		for k := 0; k <= int(InternalKeyKindMax)+1; k++ {
			mut(off, byte(k))
		}
		mut(off, 0xff)
	case x < 90 && len(rkInner) > 0:
		label = "rangekey-value-inner-varint"
		for _, off := range rkInner {
			for _, nb := range []byte{repr[off] + 1, repr[off] + 9, 0x7f, 0x80, 0xff} {
				mut(off, nb)
			}
		}
	default:
		label = "flip-insert-delete"
		for k := 0; k < 24; k++ {
			mm := append([]byte(nil), repr...)
			for e := 1 + rng.IntN(3); e > 0 && len(mm) > 0; e-- {
				off := rng.IntN(len(mm))
				switch rng.IntN(3) {
				case 0:
					mm[off] ^= 1 << rng.IntN(8)
				case 1:
					mm = append(mm[:off], append([]byte{byte(rng.Uint32())}, mm[off:]...)...)
				default:
					mm = append(mm[:off], mm[off+1:]...)
				}
			}
			inputs = append(inputs, mm)
		}
	}
	r.SetAdd("malformed_generators", label)
	seq := base.SeqNum(1000)
	for j, data := range inputs {
		r.BeginCase(fmt.Sprintf("%d/%d", i, j))
		spansOK, rkBad := verifC31Analyse(data)
		if !spansOK {
			// decodes, but some range op has start >= end: reachable through the
			// typed API (caller error), the fragmenter is entitled to assert.
			r.Count("skipped_semantically_invalid_spans", 1)
			continue
		}
		r.Eval(1)
		r.Count("malformed_inputs", 1)
		r.Distinct("mal", hex.EncodeToString(data))
		// newFlushableBatch sizes an allocation from the header count (16 B per
		// entry): a count in the billions asks for up to 64 GiB, which either kills
		// the process (fatal "out of memory", known finding F4) or makes the race
		// runtime touch gigabytes of shadow memory on a shared machine. Such inputs
		// are NOT executed; they are only counted.
		if h, ok := batchrepr.ReadHeader(data); ok && h.Count > 1<<24 {
			r.Count("huge_count_inputs_not_executed", 1)
			continue
		}
		report := func(api, p, st string) {
			if strings.Contains(st, "internal/base.AssertionFailedf") {
				// base.AssertionFailedf panics only in invariants builds (this one);
				// a production build returns the same error to the caller.
				r.Count("assertion_error_(panics_only_under_invariants):"+api, 1)
				return
			}
			key := api + "|" + p
			seen[key]++
			r.Count("decode_panics_total", 1)
			r.SetAdd("decode_panics", key)
			if seen[key] <= 2 {
				r.Violate("decode-panic", fmt.Sprintf("%s panicked on a %d-byte repr: %s", api, len(data), p),
					map[string]any{"api": api, "panic": p, "input_hex": hex.EncodeToString(data), "stack": st},
					map[string]any{"api": api, "panic": p})
			}
		}
		mk := func() *Batch {
			nb := newBatch(nil)
			if err := nb.SetRepr(append([]byte(nil), data...)); err != nil {
				return nil
			}
			if len(nb.data) >= batchrepr.HeaderLen {
				nb.setSeqNum(seq)
			}
			return nb
		}
		// newFlushableBatch + full iteration
		var fb *flushableBatch
		var ferr error
		var fpoints []verifC31Ent
		var frd, frk []verifC31Span
		if nb := mk(); nb != nil {
			if p, pan, st := verifC31Guard(func() {
				fb, ferr = newFlushableBatch(nb, DefaultComparer)
				if ferr == nil {
					it := fb.newIter(nil)
					fpoints = verifC31Forward(it)
					if it.Error() != nil {
						ferr = it.Error()
					}
					frd, _ = verifC31Spans(fb.newRangeDelIter(nil), false)
					frk, _ = verifC31Spans(fb.newRangeKeyIter(nil), false)
				}
			}); pan {
				report("newFlushableBatch", p, st)
				ferr = fmt.Errorf("panic")
			} else if ferr != nil {
				r.Count("verdict_error:newFlushableBatch", 1)
			} else {
				r.Count("verdict_ok:newFlushableBatch", 1)
			}
		} else {
			ferr = ErrInvalidBatch
		}
		// memTable.apply + full iteration
		var merr error
		var mpoints []verifC31Ent
		var mrd, mrk []verifC31Span
		if nb := mk(); nb != nil {
			m := newMemTable(memTableOptions{Options: &Options{Comparer: DefaultComparer}, size: 64 << 10})
			if p, pan, st := verifC31Guard(func() {
				merr = m.apply(nb, seq)
				if merr == nil {
					mpoints = verifC31Forward(m.newIter(nil))
					mrd, _ = verifC31Spans(m.newRangeDelIter(nil), false)
					if !rkBad {
						// a memtable trusts its contents: its span cache panics by
						// design on an undecodable range-key value
						mrk, _ = verifC31Spans(m.newRangeKeyIter(nil), false)
					}
				}
			}); pan {
				report("memTable.apply+iterate", p, st)
				merr = fmt.Errorf("panic")
			} else if merr != nil {
				r.Count("verdict_error:memTable.apply", 1)
			} else {
				r.Count("verdict_ok:memTable.apply", 1)
			}
			verifC31FreeMem(m)
		} else {
			merr = ErrInvalidBatch
		}
		// both accepted the mutant: they must still agree
		if ferr == nil && merr == nil {
			r.Count("mutants_accepted_by_both", 1)
			d := verifC31DiffEnts(fpoints, mpoints)
			if d == "" {
				d = verifC31DiffSpans(frd, mrd)
			}
			if d == "" && !rkBad {
				d = verifC31DiffSpans(frk, mrk)
			}
			if rkBad {
				r.Count("newFlushableBatch_accepted_malformed_rangekey_value", 1)
			}
			if d != "" {
				key := "mutant-mismatch|" + label
				seen[key]++
				if seen[key] <= 2 {
					r.Violate("flushable-mismatch-on-accepted-mutant", "a mutated repr accepted by both newFlushableBatch and memTable.apply iterates differently: "+d,
						map[string]any{"input_hex": hex.EncodeToString(data), "generator": label}, map[string]any{"generator": label})
				}
			}
		}
	}
}
