package pebble

import "github.com/cockroachdb/pebble/internal/base"

// VerifC39LiveFiles is a white-box accessor for the C39 monitor: the disk file
// numbers of every table backing and blob file referenced by any live version
// (current, or pinned by an iterator / file-only snapshot) or protected virtual
// backing, plus the minimum unflushed WAL number. ok=false if DB.mu could not
// be taken without blocking (the caller counts that observation as unchecked).
func VerifC39LiveFiles(d *DB) (live map[base.DiskFileNum]struct{}, minLog base.DiskFileNum, ok bool) {
	if !d.mu.TryLock() {
		return nil, 0, false
	}
	defer d.mu.Unlock()
	live = map[base.DiskFileNum]struct{}{}
	d.mu.versions.addLiveFileNums(live)
	return live, d.mu.versions.minUnflushedLogNum, true
}

// VerifC39LiveFilesBlocking is the blocking variant used at quiescent points.
func VerifC39LiveFilesBlocking(d *DB) (live map[base.DiskFileNum]struct{}, minLog base.DiskFileNum) {
	d.mu.Lock()
	defer d.mu.Unlock()
	live = map[base.DiskFileNum]struct{}{}
	d.mu.versions.addLiveFileNums(live)
	return live, d.mu.versions.minUnflushedLogNum
}
