#!/usr/bin/env python3
"""Driver for the runtime monitors in /verif (python3 stdlib only).

  verif.py setup                         verify toolchain, pre-build all monitor binaries
  verif.py check <ID> [--tier quick|thorough] [--keep]
  verif.py replay <replay.json>          re-run the case recorded in a replay file
  verif.py manifest                      regenerate MANIFEST.json from checks.d/*.json
  verif.py build <ID>                    only build the binaries of a property
  verif.py selftest <ID> <patch>         apply patch to a scratch worktree, expect a VIOLATION

Exit codes of `check`: 0 held (or only known findings), 1 violation (prints
`VIOLATION property=<id> replay=<path>`), 2 build failed (BUILD-FAILED), 3
harness malfunction (HARNESS-ERROR; never a VIOLATION line).
"""
import glob
import hashlib
import json
import os
import re
import shutil
import subprocess
import sys
import time

VERIF = os.path.dirname(os.path.abspath(__file__))
REPO = os.environ.get("VERIF_REPO", "/repo")
BUILD = os.path.join(VERIF, "build")
HARNESS = os.path.join(VERIF, "harness")
EVIDENCE = os.path.join(VERIF, "evidence")
REPLAYS = os.path.join(VERIF, "replays")
NCPU = os.cpu_count() or 4


def go_env():
    env = dict(os.environ)
    env["GOFLAGS"] = "-mod=mod"
    env["GOPROXY"] = "off"
    # GOTOOLCHAIN=local would select go1.23.5 and GOSUMDB=off breaks the
    # offline switch to the go1.25.3 toolchain in the module cache (DESIGN §2.1).
    env.pop("GOTOOLCHAIN", None)
    env.pop("GOSUMDB", None)
    env.pop("GOWORK", None)
    return env


def repo_slug():
    return hashlib.sha1(REPO.encode()).hexdigest()[:8]


def bdir():
    d = os.path.join(BUILD, repo_slug())
    os.makedirs(os.path.join(d, "bin"), exist_ok=True)
    return d


def gen_overlay():
    """Map /verif/harness into non-existent paths of REPO. Add-only: a path
    that exists in REPO is never replaced."""
    repl = {}
    # virtual packages
    root = os.path.join(HARNESS, "pkg")
    for dp, _, fns in os.walk(root):
        for fn in fns:
            if not fn.endswith(".go"):
                continue
            src = os.path.join(dp, fn)
            rel = os.path.relpath(src, root)
            dst = os.path.join(REPO, "internal", "verif", rel)
            repl[dst] = src
    # white-box test files inside existing packages
    root = os.path.join(HARNESS, "inpkg")
    for dp, _, fns in os.walk(root):
        for fn in fns:
            if not fn.endswith(".go"):
                continue
            src = os.path.join(dp, fn)
            rel = os.path.relpath(src, root)
            dst = os.path.join(REPO, rel)
            repl[dst] = src
    for dst in repl:
        if os.path.exists(dst):
            sys.stdout.write("HARNESS-ERROR overlay target exists in repo: %s\n" % dst)
            sys.exit(3)
    d = bdir()
    p = os.path.join(d, "overlay.%d.json" % os.getpid())
    with open(p, "w") as f:
        json.dump({"Replace": repl}, f, indent=0)
    # alternative go.mod with porcupine
    mod = open(os.path.join(REPO, "go.mod")).read()
    if "anishathalye/porcupine" not in mod:
        mod += "\nrequire github.com/anishathalye/porcupine v1.3.0\n"
    mp = os.path.join(d, "pebble.%d.go.mod" % os.getpid())
    with open(mp, "w") as f:
        f.write(mod)
    shutil.copyfile(os.path.join(REPO, "go.sum"), os.path.join(d, "pebble.%d.go.sum" % os.getpid()))
    return p, mp


VARIANTS = {
    "inv": ["-tags", "invariants,verif"],
    "plain": ["-tags", "verif"],
    "race": ["-race", "-tags", "verif"],
    "asan": ["-asan", "-tags", "invariants,verif"],
}


def pkgname(pkg):
    pkg = pkg.strip("/")
    while pkg.startswith("./"):
        pkg = pkg[2:]
    return "" if pkg == "." else pkg


def binpath(pkg, variant):
    return os.path.join(bdir(), "bin", (pkgname(pkg).replace("/", "_") or "root") + "." + variant + ".test")


def build(pkg, variant, quiet=False):
    overlay, modfile = gen_overlay()
    out = binpath(pkg, variant)
    cmd = ["go", "test", "-c", "-o", out, "-vet=off", "-overlay=" + overlay, "-modfile=" + modfile]
    cmd += VARIANTS[variant] + ["./" + pkgname(pkg)]
    t0 = time.time()
    p = subprocess.run(cmd, cwd=REPO, env=go_env(), stdout=subprocess.PIPE, stderr=subprocess.STDOUT, text=True)
    for tmp in (overlay, modfile, modfile[:-4] + ".sum"):
        try:
            os.remove(tmp)
        except OSError:
            pass
    if p.returncode != 0 or not os.path.exists(out):
        sys.stdout.write("BUILD-FAILED pkg=%s variant=%s\n%s\n" % (pkg, variant, p.stdout[-6000:]))
        return None
    if not quiet:
        sys.stderr.write("built %s [%s] in %.1fs\n" % (pkg, variant, time.time() - t0))
    return out


def load_checks():
    out = {}
    for p in sorted(glob.glob(os.path.join(VERIF, "checks.d", "*.json"))):
        c = json.load(open(p))
        out[c["property_id"]] = c
    return out


def load_known():
    p = os.path.join(VERIF, "known_findings.json")
    if not os.path.exists(p):
        return []
    return json.load(open(p)).get("findings", [])


def matches_known(entry, pid, v):
    """A known entry suppresses a violation iff property and class agree and
    every key of entry['match'] equals (or, for 're:' strings, matches) the
    corresponding field of the violation's structured match dict."""
    if entry.get("kind") != "known" or entry.get("property") != pid:
        return False
    if entry.get("class") and entry["class"] != v.get("class"):
        return False
    vm = v.get("match") or {}
    for k, want in (entry.get("match") or {}).items():
        got = vm.get(k)
        if isinstance(want, str) and want.startswith("re:"):
            if got is None or not re.search(want[3:], str(got)):
                return False
        elif got != want:
            return False
    return True


RACE_RE = re.compile(r"WARNING: DATA RACE")


def run_part(pid, part, tier, seed, outdir, extra_env=None):
    """Start all shards of one part; returns list of (proc, meta)."""
    variant = part["variant"]
    binp = binpath(part["pkg"], variant)
    nshards = part.get("shards", {}).get(tier, 1) if isinstance(part.get("shards"), dict) else part.get("shards", 1)
    nshards = max(1, min(int(nshards), NCPU))
    to = part.get("timeout_s", {}).get(tier, 900 if tier == "quick" else 3600) if isinstance(part.get("timeout_s"), dict) else part.get("timeout_s", 900)
    procs = []
    for si in range(nshards):
        env = go_env()
        env.update({
            "VERIF_SEED": str(seed), "VERIF_TIER": tier, "VERIF_SHARD": str(si), "VERIF_NSHARDS": str(nshards),
            "VERIF_OUT": outdir, "VERIF_PROP": pid, "VERIF_REPLAY_DIR": REPLAYS, "VERIF_REPO": REPO,
        })
        for k, v in (part.get("env") or {}).items():
            env[k] = str(v)
        if extra_env:
            env.update(extra_env)
        racelog = os.path.join(outdir, "race.%s.%d" % (part["name"], si))
        if variant == "race":
            env["GORACE"] = "halt_on_error=0 log_path=%s history_size=4" % racelog
        if variant == "asan":
            env["ASAN_OPTIONS"] = "detect_leaks=0:abort_on_error=0:log_path=%s" % os.path.join(outdir, "asan.%s.%d" % (part["name"], si))
        logp = os.path.join(outdir, "%s.%s.%d.log" % (pid, part["name"], si))
        cmd = ["timeout", "-s", "QUIT", "-k", "20", str(int(to)), binp, "-test.run", part["run"], "-test.timeout", "0", "-test.v", "-test.count", "1"]
        lf = open(logp, "w")
        rundir = os.path.join(outdir, "cwd.%s.%d" % (part["name"], si))
        os.makedirs(rundir, exist_ok=True)
        p = subprocess.Popen(cmd, cwd=rundir, env=env, stdout=lf, stderr=subprocess.STDOUT)
        procs.append((p, dict(part=part, shard=si, nshards=nshards, log=logp, logf=lf, timeout=to)))
    return procs


def tail(path, n=4000):
    try:
        with open(path, "rb") as f:
            f.seek(0, 2)
            sz = f.tell()
            f.seek(max(0, sz - n))
            return f.read().decode("utf-8", "replace")
    except OSError:
        return ""


def last_case(outdir, pid, part, shard):
    p = os.path.join(outdir, "%s.%s.%d.cases.log" % (pid, part, shard))
    t = tail(p, 300).strip().splitlines()
    return t[-1] if t else ""


def save_witness(pid, name, src_paths, info):
    os.makedirs(REPLAYS, exist_ok=True)
    base = os.path.join(REPLAYS, "%s-%s-%d" % (pid, name, int(time.time() * 1000) % 10**10))
    doc = dict(info)
    doc["logs"] = {}
    for sp in src_paths:
        doc["logs"][os.path.basename(sp)] = tail(sp, 60000)
    p = base + ".json"
    with open(p, "w") as f:
        json.dump(doc, f, indent=1)
    return p


def check(pid, tier, seed, keep=False, extra_env=None, quiet=False):
    checks = load_checks()
    if pid not in checks:
        print("HARNESS-ERROR unknown property %s" % pid)
        return 3
    c = checks[pid]
    t0 = time.time()
    parts = [p for p in c["parts"] if tier in p.get("tiers", ["quick", "thorough"])]
    # 1. build
    built = set()
    for part in parts:
        key = (part["pkg"], part["variant"])
        if key in built:
            continue
        if build(part["pkg"], part["variant"], quiet=quiet) is None:
            return 2
        built.add(key)
    # 2. run
    outdir = os.path.join(bdir(), "run", "%s-%s-%d" % (pid, tier, os.getpid()))
    shutil.rmtree(outdir, ignore_errors=True)
    os.makedirs(outdir)
    procs = []
    # parts are run sequentially when marked exclusive, otherwise together
    results = []
    for part in parts:
        ps = run_part(pid, part, tier, seed, outdir, extra_env)
        if part.get("exclusive", True):
            for p, m in ps:
                p.wait()
                m["logf"].close()
                results.append((p.returncode, m))
        else:
            procs += ps
    for p, m in procs:
        p.wait()
        m["logf"].close()
        results.append((p.returncode, m))
    # 3. collect
    violations = []   # dicts: class, detail, replay, match
    harness_errors = []
    inconclusive = []
    agg = dict(evaluations=0, distinct=set(), rules=[], samples=[], counters={}, sets={}, notes=[], assumptions=[], exhaustive=None)
    for rc, m in results:
        part = m["part"]
        rp = os.path.join(outdir, "%s.%s.%d.report.json" % (pid, part.get("report_part", part["name"]), m["shard"]))
        rep = None
        if os.path.exists(rp):
            try:
                rep = json.load(open(rp))
            except ValueError:
                rep = None
        logtxt = tail(m["log"], 200000)
        # sanitizer reports
        nraces = 0
        for rl in glob.glob(os.path.join(outdir, "race.%s.%d.*" % (part["name"], m["shard"]))):
            txt = open(rl, errors="replace").read()
            n = len(RACE_RE.findall(txt))
            nraces += n
            if n:
                wp = save_witness(pid, "race", [rl, m["log"]], dict(property=pid, cls="data-race", seed=seed, tier=tier, part=part["name"], shard=m["shard"]))
                violations.append(dict(cls="data-race", detail="%d race report(s) from the Go race detector" % n, replay=wp, match={"frames": race_frames(txt)}))
        nraces_inline = len(RACE_RE.findall(logtxt))
        if nraces_inline and not nraces:
            wp = save_witness(pid, "race", [m["log"]], dict(property=pid, cls="data-race", seed=seed, tier=tier, part=part["name"], shard=m["shard"]))
            violations.append(dict(cls="data-race", detail="%d race report(s)" % nraces_inline, replay=wp, match={"frames": race_frames(logtxt)}))
        asan_files = glob.glob(os.path.join(outdir, "asan.%s.%d.*" % (part["name"], m["shard"])))
        if asan_files or "ERROR: AddressSanitizer" in logtxt:
            wp = save_witness(pid, "asan", asan_files + [m["log"]], dict(property=pid, cls="asan", seed=seed, tier=tier, part=part["name"], shard=m["shard"], last_case=last_case(outdir, pid, part.get("report_part", part["name"]), m["shard"])))
            violations.append(dict(cls="asan", detail="AddressSanitizer report", replay=wp, match={}))
        if rep is not None:
            agg["evaluations"] += int(rep.get("evaluations", 0))
            agg["distinct"].update("%s/%s" % (part["name"], k) for k in (rep.get("distinct_keys") or []))
            if rep.get("rule") and rep["rule"] not in agg["rules"]:
                agg["rules"].append(rep["rule"])
            for s in rep.get("samples") or []:
                if len(agg["samples"]) < 6:
                    agg["samples"].append(s)
            for k, v in (rep.get("counters") or {}).items():
                if k.startswith("max_"):
                    agg["counters"][k] = max(agg["counters"].get(k, 0), v)
                else:
                    agg["counters"][k] = agg["counters"].get(k, 0) + v
            for k, v in (rep.get("sets") or {}).items():
                agg["sets"].setdefault(k, set()).update(v)
            for n in rep.get("notes") or []:
                if len(agg["notes"]) < 40:
                    agg["notes"].append(n)
            for a in rep.get("assumptions") or []:
                if a not in agg["assumptions"]:
                    agg["assumptions"].append(a)
            for s in rep.get("inconclusive") or []:
                inconclusive.append("%s/%d: %s" % (part["name"], m["shard"], s))
            if "exhaustive" in rep:
                agg["exhaustive"] = rep["exhaustive"] if agg["exhaustive"] is None else (agg["exhaustive"] and rep["exhaustive"])
            for v in rep.get("violations") or []:
                violations.append(dict(cls=v.get("class"), detail=v.get("detail"), replay=v.get("replay") or m["log"], match=v.get("match") or {}, case=v.get("case")))
            if rc != 0 and not (rep.get("violations") or []) and not nraces and not nraces_inline and not asan_files:
                # the report was written but the process still failed (e.g. a
                # panic after the deferred Finish, or a leaked-iterator finalizer)
                lc = last_case(outdir, pid, part.get("report_part", part["name"]), m["shard"])
                mm = re.search(r"^(panic:.*|fatal error:.*)$", logtxt, re.M)
                if mm:
                    wp = save_witness(pid, "panic", [m["log"]], dict(property=pid, cls="panic", seed=seed, tier=tier, part=part["name"], shard=m["shard"], last_case=lc))
                    violations.append(dict(cls="panic", detail="process died after writing its report: %s (last %s)" % (mm.group(1)[:300], lc), replay=wp, match={"message": mm.group(1)[:300]}))
                elif rc == 124 or rc == 137:
                    inconclusive.append("%s/%d: watchdog fired after the report was written" % (part["name"], m["shard"]))
                else:
                    harness_errors.append("part %s shard %d exited rc=%s without recorded violations (log %s)" % (part["name"], m["shard"], rc, m["log"]))
        else:
            # no report: the process died or timed out
            lc = last_case(outdir, pid, part.get("report_part", part["name"]), m["shard"])
            if rc == 124 or rc == 137 or "SIGQUIT" in logtxt[-100000:] and "panic:" not in logtxt:
                if c.get("timeout_is_violation") or part.get("timeout_is_violation"):
                    wp = save_witness(pid, "noprogress", [m["log"]], dict(property=pid, cls="no-progress", seed=seed, tier=tier, part=part["name"], shard=m["shard"], last_case=lc))
                    violations.append(dict(cls="no-progress", detail="no completion within %ss (goroutine dump in witness)" % m["timeout"], replay=wp, match={}))
                else:
                    inconclusive.append("%s/%d: watchdog fired after %ss (last %s)" % (part["name"], m["shard"], m["timeout"], lc))
                    harness_errors.append("watchdog fired for part %s shard %d (log %s)" % (part["name"], m["shard"], m["log"]))
            elif re.search(r"^(panic:|fatal error:)|\[signal SIG|checkptr:", logtxt, re.M):
                mm = re.search(r"^(panic:.*|fatal error:.*)$", logtxt, re.M)
                wp = save_witness(pid, "panic", [m["log"]], dict(property=pid, cls="panic", seed=seed, tier=tier, part=part["name"], shard=m["shard"], last_case=lc))
                violations.append(dict(cls="panic", detail="process died: %s (last %s)" % (mm.group(1)[:300] if mm else "?", lc), replay=wp, match={"message": mm.group(1)[:300] if mm else ""}))
            elif nraces or nraces_inline or asan_files:
                pass  # already recorded
            else:
                harness_errors.append("no report from part %s shard %d rc=%s (log %s)" % (part["name"], m["shard"], rc, m["log"]))
    # 4. verdict
    known = load_known()
    out_lines = []
    real = []
    known_hit = {}
    for v in violations:
        vv = {"class": v["cls"], "match": v.get("match")}
        hit = None
        for e in known:
            if matches_known(e, pid, vv):
                hit = e
                break
        if hit:
            known_hit.setdefault(hit["what"], 0)
            known_hit[hit["what"]] += 1
        else:
            real.append(v)
    for what, n in known_hit.items():
        out_lines.append("KNOWN-FINDING: property=%s %s (observed %d time(s) in this run)" % (pid, what, n))
    for v in real[:10]:
        out_lines.append("VIOLATION property=%s replay=%s" % (pid, v["replay"]))
        out_lines.append("  class=%s %s" % (v["cls"], (v["detail"] or "")[:1500]))
    nd = len(agg["distinct"])
    min_eval = 1
    if not real and not harness_errors and (agg["evaluations"] < min_eval or nd < 2):
        harness_errors.append("monitor observed too little: evaluations=%d distinct_nontrivial=%d" % (agg["evaluations"], nd))
    # evidence
    os.makedirs(EVIDENCE, exist_ok=True)
    cov = dict(
        evaluations=int(agg["evaluations"]), distinct_nontrivial=nd,
        rule=" || ".join(agg["rules"]) or c.get("rule", ""), samples=agg["samples"] or ["(no sample recorded)"],
        counters=agg["counters"], observed={k: sorted(v) for k, v in agg["sets"].items()},
        notes=agg["notes"], parts=[dict(name=p["name"], pkg=p["pkg"], variant=p["variant"], run=p["run"]) for p in parts],
        known_findings_observed=known_hit, inconclusive=bool(inconclusive), inconclusive_reasons=inconclusive[:20],
        explanation=c.get("level_text", ""),
    )
    if agg["exhaustive"] is not None:
        cov["exhaustive"] = bool(agg["exhaustive"])
    ev = dict(property_id=pid, tier=tier, seed=int(seed), level=c["level"], coverage=cov,
              assumptions=(c.get("assumptions") or []) + agg["assumptions"], wall_s=round(time.time() - t0, 2), violations=len(real))
    if not harness_errors or real:
        with open(os.path.join(EVIDENCE, pid + ".json"), "w") as f:
            json.dump(ev, f, indent=1, sort_keys=True)
            f.write("\n")
    for l in out_lines:
        print(l)
    if not keep and not real and not harness_errors:
        shutil.rmtree(outdir, ignore_errors=True)
    if real:
        return 1
    if harness_errors:
        for h in harness_errors:
            print("HARNESS-ERROR %s" % h)
        return 3
    if not quiet:
        print("OK property=%s tier=%s seed=%s evaluations=%d distinct_nontrivial=%d wall=%.0fs%s" % (
            pid, tier, seed, agg["evaluations"], nd, time.time() - t0, " INCONCLUSIVE-PARTS=%d" % len(inconclusive) if inconclusive else ""))
    return 0


def race_frames(txt):
    """Outermost non-runtime frames of the first report, for de-duplication."""
    fr = re.findall(r"^\s+(github\.com/cockroachdb/pebble[^\s(]*)\(", txt, re.M)
    return ";".join(fr[:6])


def cmd_setup():
    p = subprocess.run(["go", "version"], cwd=REPO, env=go_env(), stdout=subprocess.PIPE, stderr=subprocess.STDOUT, text=True)
    sys.stderr.write(p.stdout)
    if p.returncode != 0:
        print("HARNESS-ERROR go toolchain unavailable")
        return 3
    checks = load_checks()
    keys = []
    for c in checks.values():
        for part in c["parts"]:
            k = (part["pkg"], part["variant"])
            if k not in keys:
                keys.append(k)
    # build sequentially (the go tool parallelises internally); failures are
    # reported but do not abort: each check rebuilds anyway.
    bad = 0
    for pkg, var in keys:
        if build(pkg, var) is None:
            bad += 1
    return 0 if bad == 0 else 2


def cmd_manifest():
    checks = load_checks()
    props = [json.loads(l) for l in open(os.path.join(VERIF, "properties.jsonl"))]
    ids = [p["id"] for p in props]
    base = json.load(open(os.path.join(VERIF, "manifest.base.json")))
    out = dict(base)
    out["checks"] = []
    for pid in ids:
        if pid not in checks:
            continue
        c = checks[pid]
        ent = dict(
            property_id=pid,
            quick_cmd="python3 verif.py check %s --tier quick" % pid,
            thorough_cmd="python3 verif.py check %s --tier thorough" % pid,
            evidence_file="/verif/evidence/%s.json" % pid,
            replay_cmd_template="python3 verif.py replay {path}",
            engine=c.get("engine", ""),
            level_claimed=dict(category=c["level"], text=c["level_text"], design_ref=c.get("design_ref", "DESIGN.md §4 " + pid)),
            level_note=c["level_note"],
            technique=c["technique"],
        )
        out["checks"].append(ent)
    na = [e for e in base.get("not_applicable", []) if e["property_id"] not in checks]
    listed = {e["property_id"] for e in na}
    for pid in ids:
        if pid not in checks and pid not in listed:
            na.append(dict(property_id=pid, reason="no check registered yet: monitor not built/validated in the time available (see DESIGN.md status table)"))
    out["not_applicable"] = sorted(na, key=lambda e: e["property_id"])
    with open(os.path.join(VERIF, "MANIFEST.json"), "w") as f:
        json.dump(out, f, indent=1)
        f.write("\n")
    print("MANIFEST.json: %d checks, %d not_applicable" % (len(out["checks"]), len(out["not_applicable"])))
    return 0


def cmd_replay(path):
    doc = json.load(open(path))
    pid = doc.get("property")
    case = doc.get("case") or doc.get("last_case", "").replace("CASE ", "")
    extra = {}
    if case:
        extra["VERIF_ONLY_CASE"] = str(case)
    print("replaying property=%s seed=%s tier=%s case=%s" % (pid, doc.get("seed"), doc.get("tier"), case))
    return check(pid, doc.get("tier", "quick"), int(doc.get("seed", 1)), keep=True, extra_env=extra)


def cmd_selftest(pid, patch, tier="quick"):
    """Apply patch in a scratch worktree outside /repo and /verif, run the check
    against it, expect exit 1. The worktree is removed afterwards."""
    global REPO
    wt = "/var/tmp/verif-wt-%d" % os.getpid()
    subprocess.run(["git", "-C", "/repo", "worktree", "add", "--detach", wt, "HEAD"], check=True, stdout=subprocess.DEVNULL, stderr=subprocess.DEVNULL)
    try:
        subprocess.run(["git", "-C", wt, "apply", os.path.abspath(patch)], check=True)
        old = REPO
        REPO = wt
        rc = check(pid, tier, int(os.environ.get("VERIF_SEED", "1")), keep=False)
        REPO = old
        print("SELFTEST property=%s patch=%s => exit %d (%s)" % (pid, patch, rc, "CAUGHT" if rc == 1 else "MISSED"))
        return 0 if rc == 1 else 1
    finally:
        shutil.rmtree(os.path.join(BUILD, hashlib.sha1(wt.encode()).hexdigest()[:8]), ignore_errors=True)
        subprocess.run(["git", "-C", "/repo", "worktree", "remove", "--force", wt], stdout=subprocess.DEVNULL, stderr=subprocess.DEVNULL)


def main(argv):
    if len(argv) < 2:
        print(__doc__)
        return 3
    cmd = argv[1]
    if cmd == "setup":
        return cmd_setup()
    if cmd == "manifest":
        return cmd_manifest()
    if cmd == "replay":
        return cmd_replay(argv[2])
    if cmd == "build":
        c = load_checks()[argv[2]]
        for part in c["parts"]:
            if build(part["pkg"], part["variant"]) is None:
                return 2
        return 0
    if cmd == "selftest":
        tier = "quick"
        if "--tier" in argv:
            tier = argv[argv.index("--tier") + 1]
        return cmd_selftest(argv[2], argv[3], tier)
    if cmd == "check":
        pid = argv[2]
        tier = os.environ.get("VERIF_TIER", "quick")
        if "--tier" in argv:
            tier = argv[argv.index("--tier") + 1]
        if tier not in ("quick", "thorough"):
            tier = "quick"
        try:
            seed = int(os.environ.get("VERIF_SEED", "1"))
        except ValueError:
            seed = 1
        return check(pid, tier, seed, keep="--keep" in argv)
    print(__doc__)
    return 3


if __name__ == "__main__":
    sys.exit(main(sys.argv))
