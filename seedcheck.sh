#!/bin/bash
# usage: seedcheck.sh <seed-id> <demo-pkg-dir> "<check ids to try>" [tier]
# Confirms an independently produced breaking change (from /tmp/seed/<id>/out) in a scratch worktree
# and runs the listed checks against it through verif.py selftest. Results go to /verif/seeded/<id>/.
set -u
ID=$1; PKG=$2; CHECKS=$3; TIER=${4:-quick}
export GOFLAGS=-mod=mod GOPROXY=off
SRC=/tmp/seed/$ID/out
DST=/verif/seeded/$ID
mkdir -p $DST
cp $SRC/patch.diff $DST/patch.diff
DEMO=$(ls $SRC/verifseed_*_test.go 2>/dev/null | head -1)
[ -n "$DEMO" ] && cp $DEMO $DST/
[ -f $SRC/README.md ] && cp $SRC/README.md $DST/README.agent.md
WT=/var/tmp/seedv-$ID
git -C /repo worktree remove --force $WT 2>/dev/null
git -C /repo worktree add --detach $WT HEAD -q || exit 2
cd $WT
LOG=$DST/confirm.log; : > $LOG
git apply $DST/patch.diff >> $LOG 2>&1 || { echo "PATCH-DOES-NOT-APPLY" | tee -a $LOG; }
go build ./... >> $LOG 2>&1 && echo "build-with-change: ok" >> $LOG || echo "build-with-change: FAILED" >> $LOG
DEMOFN=$(grep -o 'func TestVerifSeed[A-Za-z0-9_]*' $DEMO | head -1 | sed 's/func //')
cp $DEMO $WT/$PKG/
(cd $WT/$PKG && timeout 1200 go test -vet=off -count=1 -run "^$DEMOFN\$" . > /tmp/seedv-$ID.with 2>&1); RC1=$?
echo "demo-with-change: rc=$RC1 (expected non-zero)" >> $LOG; tail -5 /tmp/seedv-$ID.with >> $LOG
git apply -R $DST/patch.diff
(cd $WT/$PKG && timeout 1200 go test -vet=off -count=1 -run "^$DEMOFN\$" . > /tmp/seedv-$ID.without 2>&1); RC2=$?
echo "demo-without-change: rc=$RC2 (expected 0)" >> $LOG; tail -3 /tmp/seedv-$ID.without >> $LOG
rm -f /tmp/seedv-$ID.with /tmp/seedv-$ID.without
cd /verif
git -C /repo worktree remove --force $WT
RES=""
for c in $CHECKS; do
  TMPO=/var/tmp/seedv-$ID-$c.out
  VERIF_SCALE=${VERIF_SCALE:-1} python3 /verif/verif.py selftest $c $DST/patch.diff --tier $TIER > $TMPO 2>&1
  OUT="$(grep -a "class=" $TMPO | tr -d '\000' | cut -c1-400 | head -2) $(grep -a "^SELFTEST" $TMPO | tail -1)"
  rm -f $TMPO
  echo "check $c ($TIER): $OUT" >> $LOG
  if echo "$OUT" | grep -q CAUGHT; then RES="$RES $c:caught"; else RES="$RES $c:missed"; fi
done
echo "$ID demo-with=$RC1 demo-without=$RC2 checks:$RES" | tee -a $LOG
